"""Importable task functions (workers and cached-function checks import them by name)."""
import os
import time

from .engines.values import gen_bytes


def payload(n, kind, seed):
    """Pure function used as a Memory-cached function in C14."""
    return {"data": gen_bytes(n, kind, seed), "n": n, "tag": ("payload", n, kind, seed)}


EXEC_COUNT = {"blob": 0, "blob2": 0}


def blob(n, tag):
    """C18: output of a drawn size."""
    EXEC_COUNT["blob"] += 1
    return bytes(n) + repr(("blob", n, tag)).encode()


def blob2(n, tag):
    EXEC_COUNT["blob2"] += 1
    return bytes(n) + repr(("blob2", n, tag)).encode()
