"""Importable task functions (workers and cached-function checks import them by name)."""
import os
import time

from .engines.values import gen_bytes


def payload(n, kind, seed):
    """Pure function used as a Memory-cached function in C14."""
    return {"data": gen_bytes(n, kind, seed), "n": n, "tag": ("payload", n, kind, seed)}
