"""Importable task functions (workers and cached-function checks import them by name)."""
import os
import time

from .engines.values import gen_bytes


def payload(n, kind, seed):
    """Pure function used as a Memory-cached function in C14."""
    return {"data": gen_bytes(n, kind, seed), "n": n, "tag": ("payload", n, kind, seed)}


EXEC_COUNT = {"blob": 0, "blob2": 0}


def blob(n, tag):
    """C18: output of a drawn size."""
    EXEC_COUNT["blob"] += 1
    return bytes(n) + repr(("blob", n, tag)).encode()


def blob2(n, tag):
    EXEC_COUNT["blob2"] += 1
    return bytes(n) + repr(("blob2", n, tag)).encode()


# ---- real-backend tasks (E2) ---------------------------------------------------------

def _log(path, line):
    fd = os.open(path, os.O_WRONLY | os.O_APPEND | os.O_CREAT, 0o644)
    try:
        os.write(fd, (line + "\n").encode())
    finally:
        os.close(fd)


class TaskError(Exception):
    pass


def rtask(idx, sleep_ms, logpath, fail=None):
    """Log start/end (atomic O_APPEND lines, totally ordered across processes), sleep, return or raise."""
    import threading
    me = "%d %d" % (os.getpid(), threading.get_ident())
    _log(logpath, "S %d %s" % (idx, me))
    if sleep_ms:
        time.sleep(sleep_ms / 1000.0)
    _log(logpath, "E %d %s" % (idx, me))
    if fail == "value":
        raise ValueError("x", idx)
    if fail == "key":
        raise KeyError(idx)
    if fail == "custom":
        raise TaskError("task", idx)
    if fail == "os":
        raise OSError(2, "msg-%d" % idx)
    return ("r", idx, idx % 3)


def nest(level, depth, path, logpath, sleep_ms=5, prefer=None):
    """Nested Parallel calls that leave the backend unspecified (optionally with the soft hint `prefer`)."""
    import threading

    from joblib import Parallel, delayed
    _log(logpath, "N %d %s %d %d" % (level, path, os.getpid(), threading.get_ident()))
    time.sleep(sleep_ms / 1000.0)
    if level < depth:
        kw = {"prefer": prefer} if prefer else {}
        Parallel(n_jobs=2, **kw)(delayed(nest)(level + 1, depth, "%s.%d" % (path, i), logpath, sleep_ms, prefer) for i in range(2))
    return path


# ---- faults (C10) ------------------------------------------------------------------------

def die_now(kind):
    import ctypes
    import signal
    if kind == "SIGKILL":
        os.kill(os.getpid(), signal.SIGKILL)
    elif kind == "SIGTERM":
        os.kill(os.getpid(), signal.SIGTERM)
    elif kind == "SIGSEGV":
        ctypes.string_at(0)
    elif kind == "abort":
        os.abort()
    elif kind == "exit0":
        os._exit(0)
    elif kind in ("SIGBUS", "SIGUSR1"):
        os.kill(os.getpid(), getattr(signal, kind))
    elif kind.startswith("SIGRT+"):
        os.kill(os.getpid(), signal.SIGRTMIN + int(kind[6:]))
    else:
        os._exit(1)
    time.sleep(5)   # signal delivery
    os._exit(3)


class BombOnUnpickle:
    """Dies in whichever process unpickles it (the worker receiving it as an argument)."""

    def __init__(self, kind):
        self.kind = kind

    def __reduce__(self):
        return (die_now, (self.kind,))


def _rebuild(x):
    return x


class BombOnPickle:
    """Dies when pickled outside the parent process (the worker sending it back as a result)."""

    def __init__(self, kind, parent_pid):
        self.kind, self.parent_pid = kind, parent_pid

    def __reduce__(self):
        if os.getpid() != self.parent_pid:
            die_now(self.kind)
        return (_rebuild, ((self.kind, self.parent_pid),))


def ftask(idx, logpath, sleep_ms=0, fault=None, bomb=None, parent_pid=None, big=0):
    """C10 task: logs its pid, optionally dies at a drawn instant, returns ("r", idx)."""
    _log(logpath, "S %d %d" % (idx, os.getpid()))
    if fault and fault[0] == "start":
        die_now(fault[1])
    if sleep_ms:
        time.sleep(sleep_ms / 1000.0)
    if fault and fault[0] == "mid":
        die_now(fault[1])
    _log(logpath, "E %d %d" % (idx, os.getpid()))
    if fault and fault[0] == "pickle_result":
        return BombOnPickle(fault[1], parent_pid)
    if big:
        return ("r", idx, bytes(big))
    return ("r", idx)
