"""CLI of the verification machinery.

    ./check C07 [--tier quick|thorough]       search
    ./check C07 --replay replays/C07-x.json   re-run one saved spec (no Hypothesis)

exit 0: property held on everything explored (KNOWN-FINDING lines allowed)
exit 1: VIOLATION property=<id> replay=<path>
exit 2: harness error
"""

import argparse
import importlib
import json
import os
import shutil
import subprocess
import sys
import tempfile
import time
import traceback

from .core import HarnessError, Inconclusive, Violation, jhash, merge_stats

ROOT = os.environ.get("VF_ROOT") or os.path.dirname(os.path.dirname(os.path.abspath(__file__)))
PY = "/venv/bin/python"


def log(*a):
    print(*a, flush=True)


def load_findings(pid):
    path = os.path.join(ROOT, "known_findings.json")
    if not os.path.exists(path):
        return []
    with open(path) as f:
        data = json.load(f)
    return [e for e in data.get("findings", []) if e.get("property") == pid]


def ensure_setup(needs):
    """Rebuild the git-ignored helpers when missing (fresh restore)."""
    if "deps" in needs and not os.path.isdir(os.path.join(ROOT, ".deps", "numpy")):
        r = subprocess.run(["sh", os.path.join(ROOT, "setup.sh"), "deps"], cwd=ROOT)
        if r.returncode:
            raise HarnessError("setup deps failed")
    if "fsgate" in needs and not os.path.exists(os.path.join(ROOT, "build", "fsgate.so")):
        r = subprocess.run(["sh", os.path.join(ROOT, "setup.sh"), "fsgate"], cwd=ROOT)
        if r.returncode:
            raise HarnessError("setup fsgate failed")


def child_env(mod, extra=None):
    env = dict(os.environ)
    pp = [os.environ.get("VF_REPO", "/repo"), ROOT, os.path.join(ROOT, ".deps_hyp")]
    if "deps" in getattr(mod, "NEEDS", ()):
        pp.append(os.path.join(ROOT, ".deps"))
    if "fsgate" in getattr(mod, "NEEDS", ()):
        env["LD_PRELOAD"] = os.path.join(ROOT, "build", "fsgate.so")
    env["PYTHONPATH"] = ":".join(pp)
    env["PYTHONHASHSEED"] = "0"
    env["PYTHONDONTWRITEBYTECODE"] = "1"
    env["VF_ROOT"] = ROOT
    env.pop("JOBLIB_TEMP_FOLDER", None)
    if extra:
        env.update(extra)
    return env


def scratch_base():
    for base in ("/dev/shm", None):
        if base is None or (os.path.isdir(base) and os.access(base, os.W_OK)):
            return base
    return None


def run_shards(mod, pid, tier, seed, n_shards, excluded, timeout, phase="search"):
    base = getattr(mod, "SCRATCH_BASE", "shm")
    if base != "shm":
        os.makedirs("/var/tmp", exist_ok=True)
    top = tempfile.mkdtemp(prefix="vf-%s-" % pid, dir=scratch_base() if base == "shm" else "/var/tmp")
    procs = []
    try:
        for i in range(n_shards):
            sdir = os.path.join(top, "s%d" % i)
            os.mkdir(sdir)
            args = {
                "pid": pid, "tier": tier, "seed": seed, "shard": i, "n_shards": n_shards,
                "excluded": excluded, "scratch": sdir, "out": os.path.join(top, "out%d.json" % i),
                "phase": phase, "soft_deadline": time.time() + timeout * 0.8,
            }
            logf = open(os.path.join(top, "log%d.txt" % i), "wb")
            # output goes to a file, not a pipe: worker processes that outlive the shard (loky) would keep a pipe open
            p = subprocess.Popen(
                [PY, "-m", "vf.shard", json.dumps(args)],
                cwd=ROOT, env=child_env(mod), stdout=logf, stderr=subprocess.STDOUT,
                start_new_session=True,
            )
            logf.close()
            procs.append((i, p, args))
        results = []
        deadline = time.time() + timeout
        errors = []

        def tail(i, n=6000):
            try:
                with open(os.path.join(top, "log%d.txt" % i), "rb") as f:
                    return f.read()[-n:].decode(errors="replace")
            except OSError:
                return ""
        for i, p, args in procs:
            try:
                p.wait(timeout=max(1.0, deadline - time.time()))
            except subprocess.TimeoutExpired:
                errors.append("shard %d timed out after %ss\n%s" % (i, timeout, tail(i, 3000)))
                continue
            finally:
                try:
                    os.killpg(p.pid, 9)   # the shard and any worker process it left behind
                except OSError:
                    pass
            if p.returncode != 0 or not os.path.exists(args["out"]):
                errors.append("shard %d exit %s\n%s" % (i, p.returncode, tail(i)))
                continue
            with open(args["out"]) as f:
                results.append(json.load(f))
        if errors:
            raise HarnessError("\n".join(errors))
        return merge_stats(results)
    finally:
        for _, p, _ in procs:
            if p.poll() is None:
                try:
                    os.killpg(p.pid, 9)
                except OSError:
                    pass
        shutil.rmtree(top, ignore_errors=True)


def repo_state():
    try:
        head = subprocess.run(["git", "-C", "/repo", "rev-parse", "HEAD"], capture_output=True, text=True).stdout.strip()
        dirty = bool(subprocess.run(["git", "-C", "/repo", "status", "--porcelain", "-uno"], capture_output=True, text=True).stdout.strip())
    except Exception:
        head, dirty = "unknown", False
    return head, dirty


def save_replay(pid, failure, subdir=""):
    d = os.path.join(ROOT, "replays", subdir) if subdir else os.path.join(ROOT, "replays")
    os.makedirs(d, exist_ok=True)
    name = "%s-%s.json" % (pid, jhash([failure.get("signature"), failure["spec"]]))
    path = os.path.join(d, name)
    with open(path, "w") as f:
        json.dump({"property": pid, "signature": failure.get("signature"), "msg": failure.get("msg"),
                   "spec": failure["spec"]}, f, indent=1, sort_keys=True, default=repr)
    return os.path.relpath(path, ROOT)


def replay_inline(mod, spec):
    """Run one spec in a fresh subprocess (so state never leaks); returns
    (status, msg, signature) with status in ok/violation/inconclusive/error."""
    with tempfile.TemporaryDirectory(prefix="vf-rp-", dir=scratch_base() if getattr(mod, "SCRATCH_BASE", "shm") == "shm" else "/var/tmp") as td:
        args = {"pid": mod.PROPERTY_ID, "spec": spec, "scratch": td, "out": os.path.join(td, "out.json")}
        to = getattr(mod, "REPLAY_TIMEOUT", 300)
        logp = os.path.join(td, "replay.log")
        with open(logp, "wb") as logf:
            p = subprocess.Popen([PY, "-m", "vf.shard", "--replay", json.dumps(args)], cwd=ROOT, env=child_env(mod),
                                 stdout=logf, stderr=subprocess.STDOUT, start_new_session=True)
        try:
            p.wait(timeout=to)
        except subprocess.TimeoutExpired:
            return "error", "replay timed out after %ss" % to, None
        finally:
            try:
                os.killpg(p.pid, 9)
            except OSError:
                pass
        if p.returncode != 0 or not os.path.exists(args["out"]):
            with open(logp, "rb") as f:
                return "error", f.read()[-4000:].decode(errors="replace"), None
        with open(args["out"]) as f:
            r = json.load(f)
        return r["status"], r.get("msg"), r.get("signature")


def write_evidence(mod, pid, tier, seed, merged, wall, violations, extra_cov=None):
    head, dirty = repo_state()
    samples = merged["samples"][:8]
    if not samples:
        samples = [f["spec"] for f in merged["failures"][:3]]
    cov = {
        "evaluations": merged["evaluations"],
        "distinct_nontrivial": len(merged["nontrivial"]),
        "rule": mod.RULE,
        "samples": samples,
        "classes": dict(sorted(merged["classes"].items())),
        "excluded_by_known_finding": merged["excluded"],
        "skipped_budget": merged["skipped"],
        "inconclusive": merged["inconclusive"],
        "exhaustive": bool(merged["extra"].get("exhaustive", False)),
        "repo_head": head,
        "repo_dirty": dirty,
        "notes": merged["notes"][:20],
    }
    for k, v in merged["extra"].items():
        if k != "exhaustive":
            cov[k] = v if not isinstance(v, list) else v[:20]
    if extra_cov:
        cov.update(extra_cov)
    ev = {
        "property_id": pid, "tier": tier, "seed": seed, "level": mod.LEVEL,
        "coverage": cov, "assumptions": list(getattr(mod, "ASSUMPTIONS", [])),
        "wall_s": round(wall, 2), "violations": violations,
    }
    os.makedirs(os.path.join(ROOT, "evidence"), exist_ok=True)
    path = os.path.join(ROOT, "evidence", "%s.json" % pid)
    tmp = path + ".tmp"
    with open(tmp, "w") as f:
        json.dump(ev, f, indent=1, sort_keys=True, default=repr)
    os.replace(tmp, path)


def main(argv=None):
    ap = argparse.ArgumentParser()
    ap.add_argument("pid")
    ap.add_argument("--tier", default=os.environ.get("VERIF_TIER") or "quick")
    ap.add_argument("--replay")
    ap.add_argument("--shards", type=int)
    ap.add_argument("--no-known", action="store_true", help="ignore known_findings.json (development)")
    a = ap.parse_args(argv)
    pid = a.pid.upper()
    tier = a.tier if a.tier in ("quick", "thorough") else "quick"
    try:
        seed = int(os.environ.get("VERIF_SEED", "1"))
    except ValueError:
        seed = 1
    t0 = time.time()
    try:
        mod = importlib.import_module("vf.props.%s" % pid.lower())
        ensure_setup(getattr(mod, "NEEDS", ()))

        if a.replay:
            with open(a.replay) as f:
                rp = json.load(f)
            spec = rp["spec"] if isinstance(rp, dict) and "spec" in rp else rp
            status, msg, sig = replay_inline(mod, spec)
            log("replay %s: %s %s" % (a.replay, status, msg or ""))
            if status == "violation":
                log("VIOLATION property=%s replay=%s" % (pid, a.replay))
                return 1
            return 0 if status in ("ok", "inconclusive") else 2

        violations = []  # (signature, replay path, msg)
        excluded = []
        known_lines = []
        replayed = 0

        # 1. known findings / fixed witnesses / regression replays
        findings = [] if a.no_known else load_findings(pid)
        for e in findings:
            status, msg, sig = replay_inline(mod, e["witness_spec"])
            replayed += 1
            if status == "error":
                raise HarnessError("witness replay failed: %s" % msg)
            if e["status"] == "known":
                # a listed finding is reported on every run and its root-cause class is excluded from the
                # search whether or not the (possibly timing dependent) witness reproduced this time
                known_lines.append("KNOWN-FINDING: property=%s %s%s" % (
                    pid, e["what"], "" if status == "violation" else " [witness did not reproduce in this run]"))
                excluded.append(e["signature"])
            else:  # fixed: suppresses nothing
                if status == "violation":
                    path = save_replay(pid, {"spec": e["witness_spec"], "signature": e.get("signature"), "msg": msg})
                    violations.append((e.get("signature"), path, "fixed defect returned: %s: %s" % (e["what"], msg)))
        rdir = os.path.join(ROOT, "replays", "regress")
        if os.path.isdir(rdir):
            for fn in sorted(os.listdir(rdir)):
                if fn.startswith(pid + "-") and fn.endswith(".json"):
                    with open(os.path.join(rdir, fn)) as f:
                        rp = json.load(f)
                    status, msg, sig = replay_inline(mod, rp["spec"])
                    replayed += 1
                    if status == "error":
                        raise HarnessError("regress replay %s failed: %s" % (fn, msg))
                    if status == "violation":
                        s = sig if sig is not None else rp.get("signature")
                        if any(json.dumps(s, sort_keys=True) == json.dumps(x, sort_keys=True) for x in excluded):
                            continue
                        violations.append((s, os.path.join("replays", "regress", fn), msg))
        for ln in known_lines:
            log(ln)

        # 2. search, with root-cause enumeration
        shards = a.shards or getattr(mod, "SHARDS", {}).get(tier, 8 if tier == "quick" else 16)
        timeout = getattr(mod, "TIMEOUT", {}).get(tier, 600 if tier == "quick" else 3600)
        merged_all = None
        rounds = 0
        seen = set(json.dumps(v[0], sort_keys=True) for v in violations)
        while True:
            rounds += 1
            merged = run_shards(mod, pid, tier, seed + 1000 * (rounds - 1), shards, excluded, timeout)
            merged_all = merged if merged_all is None else merge_stats([
                {**merged_all, "nontrivial": list(merged_all["nontrivial"])},
                {**merged, "nontrivial": list(merged["nontrivial"])}])
            new = []
            # smallest failure per signature
            by_sig = {}
            for f in merged["failures"]:
                k = json.dumps(f.get("signature"), sort_keys=True)
                if k not in by_sig or f["size"] < by_sig[k]["size"]:
                    by_sig[k] = f
            for k, f in by_sig.items():
                if k in seen:
                    continue
                seen.add(k)
                path = save_replay(pid, f)
                violations.append((f.get("signature"), path, f["msg"]))
                new.append(f)
            max_rounds = getattr(mod, "MAX_ROUNDS", 4)
            if not new or rounds >= max_rounds:
                break
            can_exclude = [f["signature"] for f in new if f.get("signature") is not None]
            if not can_exclude:
                break
            excluded = excluded + can_exclude
            log("round %d: %d new root cause(s); continuing with them excluded" % (rounds, len(new)))

        wall = time.time() - t0
        write_evidence(mod, pid, tier, seed, merged_all, wall, len(violations),
                       {"replayed_saved_specs": replayed, "search_rounds": rounds, "shards": shards})
        cov_nt = len(merged_all["nontrivial"])
        log("%s tier=%s seed=%d evaluations=%d distinct_nontrivial=%d excluded=%d skipped=%d inconclusive=%d wall=%.1fs"
            % (pid, tier, seed, merged_all["evaluations"], cov_nt, merged_all["excluded"], merged_all["skipped"],
               merged_all["inconclusive"], wall))
        if violations:
            for sig, path, msg in violations:
                log("  violation signature=%s: %s" % (json.dumps(sig), (msg or "")[:1500]))
                log("VIOLATION property=%s replay=%s" % (pid, path))
            return 1
        if cov_nt < 2:
            raise HarnessError("vacuous run: distinct_nontrivial=%d" % cov_nt)
        return 0
    except HarnessError as e:
        log("HARNESS-ERROR property=%s: %s" % (pid, e))
        return 2
    except Exception:
        log("HARNESS-ERROR property=%s: %s" % (pid, traceback.format_exc()))
        return 2


if __name__ == "__main__":
    sys.exit(main())
