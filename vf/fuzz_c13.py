"""Coverage-guided campaign for C13 (thorough tier): atheris/libFuzzer drives the SAME model check as the Hypothesis
search through a FuzzedDataProvider decoder (bytes -> structured case of the same space), with joblib.compressor instrumented for coverage.

    python -m vf.fuzz_c13 <out.json> <seconds> <seed> [corpus dir]
Writes {"runs": n, "failure": spec-or-null, "msg": ...} to out.json.  Exit 0 always (the caller judges)."""
import json
import os
import sys
import time


def main():
    out_path, seconds, seed = sys.argv[1], int(sys.argv[2]), int(sys.argv[3])
    corpus = sys.argv[4] if len(sys.argv) > 4 else None
    import atheris
    with atheris.instrument_imports(include=["joblib.compressor"]):
        import joblib.compressor  # noqa
    from vf.core import Violation
    from vf.props import c13

    state = {"runs": 0, "failure": None, "msg": None}

    def flush():
        with open(out_path, "w") as f:
            json.dump(state, f)

    def decode(data):
        """bytes -> a C13 case spec (same space as c13.strategy(), decoded with FuzzedDataProvider)."""
        fdp = atheris.FuzzedDataProvider(data)
        pick = lambda xs: xs[fdp.ConsumeIntInRange(0, len(xs) - 1)]
        size = pick(c13.SIZES) if fdp.ConsumeBool() else fdp.ConsumeIntInRange(0, 40000)
        payload = [size, pick(["zeros", "pattern", "rand", "lines"]), fdp.ConsumeIntInRange(0, 500)]
        cls = pick(["zlib", "gzip"])
        if fdp.ConsumeIntInRange(0, 3) == 0:
            chunks = [[pick([0, 1, 5, 100, 8191, 8192, 8193, 30000]) if fdp.ConsumeBool() else fdp.ConsumeIntInRange(0, 3000),
                       pick(["bytes", "bytearray", "memoryview"])] for _ in range(fdp.ConsumeIntInRange(0, 12))]
            return {"mode": "write", "cls": cls, "payload": payload, "level": fdp.ConsumeIntInRange(1, 9),
                    "dst": pick(["bytesio", "path"]), "chunks": chunks}
        ns = [0, 1, 2, 7, 100, 8191, 8192, 8193, 20000, 10 ** 6]
        ops = []
        for _ in range(fdp.ConsumeIntInRange(1, 30)):
            k = fdp.ConsumeIntInRange(0, 9)
            n = pick(ns) if fdp.ConsumeBool() else fdp.ConsumeIntInRange(0, 300)
            if k == 0:
                ops.append(["read", n])
            elif k == 1:
                ops.append(["readall"])
            elif k == 2:
                ops.append(["read-1"])
            elif k == 3:
                ops.append(["readinto", min(n, 20000)])
            elif k == 4:
                ops.append(["readline"] if fdp.ConsumeBool() else ["readline", fdp.ConsumeIntInRange(0, 200)])
            elif k == 5:
                ops.append(["tell"])
            elif k in (6, 7):
                base = pick(["abs", "len", "pos"])
                delta = fdp.ConsumeIntInRange(0, 45000) if base == "abs" else fdp.ConsumeIntInRange(-9000, 9000 if base == "pos" else 50)
                ops.append(["seek", fdp.ConsumeIntInRange(0, 2), [base, delta]])
            elif k == 8:
                ops.append(["seekable"])
            else:
                ops.append(["readable"])
        return {"mode": "read", "cls": cls, "payload": payload, "level": fdp.ConsumeIntInRange(0, 9), "src": pick(["bytesio", "path"]), "ops": ops}

    t_end = time.time() + seconds

    def one(data):
        if time.time() > t_end:
            flush()
            os._exit(0)
        spec = decode(data)
        state["runs"] += 1
        try:
            c13.run_case(spec)
        except Violation as v:
            state["failure"], state["msg"] = spec, v.msg
            flush()
            os._exit(0)

    argv = [sys.argv[0], "-seed=%d" % (seed or 1), "-max_len=4096", "-len_control=0", "-print_final_stats=0", "-verbosity=0"]
    if corpus:
        # libFuzzer starts from tiny inputs, which hypothesis' byte decoder rejects: seed the corpus with buffers long
        # enough to decode into whole cases (pseudo-random, deterministic in the seed)
        import random
        os.makedirs(corpus, exist_ok=True)
        rnd = random.Random(seed)
        for i in range(40):
            with open(os.path.join(corpus, "seed%02d" % i), "wb") as f:
                f.write(rnd.randbytes(rnd.choice([256, 1024, 3000])))
        argv.append(corpus)
    flush()
    atheris.Setup(argv, one)
    atheris.Fuzz()


if __name__ == "__main__":
    main()
