"""C17 - parallel_config settings are scoped, thread-local and correctly prioritised."""

import json
import queue
import threading

from hypothesis import strategies as st

from ..core import HarnessError, Violation

PROPERTY_ID = "C17"
LEVEL = "exploration"
RULE = (
    "Model-based: Hypothesis draws a history of up to 30 rules executed synchronously in one of three threads (main + two "
    "persistent workers, so the rule order is the interleaving): enter a parallel_config / parallel_backend context setting a "
    "drawn subset of {backend in threading/loky/multiprocessing/sequential/two registered custom backends (one sharedmem, "
    "one not), n_jobs, verbose, prefer, require, max_nbytes (ints and size strings), mmap_mode, temp_folder} (depth <= 4 per "
    "thread); exit the innermost context normally or with an exception travelling through __exit__; construct "
    "Parallel(**explicit subset); observe get_active_backend().  Oracle = per-thread stack-of-dicts model: (1) after every "
    "exit the thread observes what it observed before the matching enter, and the defaults once its stack is empty; (2) no "
    "rule changes what another thread observes; (3) n_jobs/verbose/max_nbytes/mmap_mode/temp_folder resolve explicit > "
    "innermost context > outer > default (with the suite-pinned exception that a forced sharedmem fallback drops the "
    "context's n_jobs); (4) explicit backend > context backend > default, prefer only chooses among defaults, a resolved "
    "require='sharedmem' yields ValueError or a backend with supports_sharedmem and uses_threads, prefer='processes' + "
    "require='sharedmem' raises ValueError or yields such a thread-based backend.  Non-trivial: depth >= 2 with overlapping keys, or two threads with open contexts "
    "at once, or an exceptional exit.  distinct = hash of the history."
)
ASSUMPTIONS = [
    "contexts are exited in LIFO order per thread; backend=None and n_jobs=None are not passed to contexts",
    "ValueError is an acceptable outcome for contradictory settings",
    "Parallel objects are only constructed, never called, here (pools are not started)",
]
SHARDS = {"quick": 8, "thorough": 16}

BACKENDS = ["threading", "loky", "multiprocessing", "sequential", "vf_shm", "vf_proc"]
SHAREDMEM = {"threading": True, "loky": False, "multiprocessing": False, "sequential": True, "vf_shm": True, "vf_proc": False}
CLASS = {"threading": "ThreadingBackend", "loky": "LokyBackend", "multiprocessing": "MultiprocessingBackend",
         "sequential": "SequentialBackend", "vf_shm": "VfShmBackend", "vf_proc": "VfProcBackend"}
DEFAULT_N_JOBS = {"ThreadingBackend": 1, "LokyBackend": 1, "MultiprocessingBackend": 1, "SequentialBackend": 1,
                  "VfShmBackend": 1, "VfProcBackend": 1}
KEYS = ["n_jobs", "verbose", "prefer", "require", "max_nbytes", "mmap_mode", "temp_folder"]
VALUES = {
    "n_jobs": [1, 2, 3, 5, -1, -2],
    "verbose": [0, 1, 5, 11, 60],
    "prefer": ["threads", "processes", None],
    "require": ["sharedmem", None],
    "max_nbytes": [None, 0, 100, "1K", "2M", 4096],
    "mmap_mode": [None, "r", "r+", "c", "w+"],
    "temp_folder": [None, "/tmp/vf-a", "/tmp/vf-b"],
}
DEFAULTS = {"n_jobs": None, "verbose": 0, "prefer": None, "require": None, "max_nbytes": "1M", "mmap_mode": "r", "temp_folder": None}


def _settings(with_backend=True):
    items = [st.tuples(st.just(k), st.sampled_from(VALUES[k])) for k in KEYS]
    if with_backend:
        items.append(st.tuples(st.just("backend"), st.sampled_from(BACKENDS)))
    return st.lists(st.one_of(items), max_size=4, unique_by=lambda kv: kv[0]).map(lambda kvs: [list(kv) for kv in kvs])


def strategy():
    rule = st.one_of(
        st.tuples(st.just("enter"), st.integers(0, 2), st.sampled_from(["parallel_config", "parallel_config", "parallel_backend"]), _settings()).map(list),
        st.tuples(st.just("enter"), st.integers(0, 2), st.sampled_from(["parallel_config", "parallel_config", "parallel_backend"]), _settings()).map(list),
        st.tuples(st.just("exit"), st.integers(0, 2), st.booleans()).map(list),
        # a with statement left by an exception raised while the context manager is being created (unknown backend name)
        st.tuples(st.just("enter_fail"), st.integers(0, 2), st.sampled_from(["parallel_config", "parallel_backend"]), _settings()).map(list),
        st.tuples(st.just("construct"), st.integers(0, 2), _settings()).map(list),
        st.tuples(st.just("construct"), st.integers(0, 2), _settings()).map(list),
        st.tuples(st.just("observe"), st.integers(0, 2)).map(list),
    )
    # a frequent real-life chain as one unit: a context naming a backend and n_jobs, a Parallel that needs another kind of
    # backend (fallback paths inside joblib), then plain Parallel objects that must still see the context's settings
    chain = st.tuples(st.integers(0, 2), st.sampled_from(BACKENDS), st.sampled_from([2, 3, 5]),
                      st.sampled_from([[["require", "sharedmem"]], [["prefer", "threads"]], [["prefer", "processes"]], [["require", None]]]),
                      _settings(with_backend=False)).map(
        lambda c: [["enter", c[0], "parallel_config", [["backend", c[1]], ["n_jobs", c[2]]]], ["construct", c[0], c[3]],
                   ["construct", c[0], []], ["construct", c[0], c[4]], ["exit", c[0], False]])
    units = st.one_of(rule.map(lambda r: [r]), rule.map(lambda r: [r]), rule.map(lambda r: [r]), chain)
    return st.fixed_dictionaries({"rules": st.lists(units, min_size=1, max_size=24).map(lambda us: [r for u in us for r in u][:40])})


_registered = []


def _register():
    if _registered:
        return
    from joblib import register_parallel_backend
    from joblib._parallel_backends import ParallelBackendBase

    class VfShmBackend(ParallelBackendBase):
        supports_sharedmem = True
        uses_threads = True
        default_n_jobs = 1
        supports_retrieve_callback = True

        def effective_n_jobs(self, n_jobs):
            return n_jobs

        def submit(self, func, callback=None):
            raise NotImplementedError

    class VfProcBackend(ParallelBackendBase):
        supports_sharedmem = False
        uses_threads = False
        default_n_jobs = 1
        supports_retrieve_callback = True

        def effective_n_jobs(self, n_jobs):
            return n_jobs

        def submit(self, func, callback=None):
            raise NotImplementedError

    register_parallel_backend("vf_shm", VfShmBackend)
    register_parallel_backend("vf_proc", VfProcBackend)
    _registered.append(True)


class _Thread:
    """Persistent thread executing closures synchronously for the driver."""

    def __init__(self, name):
        self.q = queue.Queue()
        self.r = queue.Queue()
        self.t = threading.Thread(target=self._loop, name=name, daemon=True)
        self.t.start()

    def _loop(self):
        while True:
            fn = self.q.get()
            if fn is None:
                return
            try:
                self.r.put(("ok", fn()))
            except BaseException as e:
                self.r.put(("raise", e))

    def call(self, fn):
        self.q.put(fn)
        kind, val = self.r.get(timeout=60)
        if kind == "raise":
            raise val
        return val

    def stop(self):
        self.q.put(None)


class _Main:
    def call(self, fn):
        return fn()

    def stop(self):
        pass


def _observe():
    from joblib.parallel import get_active_backend

    try:
        b, n = get_active_backend()
    except ValueError as e:
        return ["ValueError", str(e)[:60]]
    return [type(b).__name__, id(b) if getattr(b, "_vf_ctx", False) else None, n]


def _parse_nbytes(v):
    if isinstance(v, str):
        return int(float(v[:-1]) * {"K": 1024, "M": 1024 ** 2, "G": 1024 ** 3}[v[-1]])
    return v


def _expected(stack, explicit):
    """Model of what Parallel(**explicit) must end up with under the thread's context stack."""
    ctx = {}
    for frame in stack:
        ctx.update(frame["set"])
    exp = dict(explicit)

    def resolve(k):
        if k in exp:
            return exp[k]
        if k in ctx:
            return ctx[k]
        return DEFAULTS[k]

    prefer, require = resolve("prefer"), resolve("require")
    out = {"must_raise": False, "may_raise": False}
    if prefer == "processes" and require == "sharedmem":
        out["must_raise"] = True
        return out
    ctx_backend = ctx.get("backend")
    forced_threads_from_ctx = False
    if "backend" in exp:
        name = exp["backend"]
        out["class"] = CLASS[name]
        if require == "sharedmem" and not SHAREDMEM[name]:
            out["must_raise"] = True
            return out
        # a context backend that cannot share memory triggers the documented fallback inside
        # _get_active_backend, which also drops the context's n_jobs - before the explicit backend is looked at
        if ctx_backend is not None and require == "sharedmem" and not SHAREDMEM[ctx_backend]:
            forced_threads_from_ctx = True
    elif ctx_backend is not None:
        if require == "sharedmem" and not SHAREDMEM[ctx_backend]:
            out["class"] = "ThreadingBackend"
            forced_threads_from_ctx = True
        else:
            out["class"] = CLASS[ctx_backend]
            out["ctx_instance"] = True
    else:
        if require == "sharedmem" or prefer == "threads":
            out["class"] = "ThreadingBackend"
        else:
            out["class"] = "LokyBackend"
    if require == "sharedmem":
        out["sharedmem"] = True
    # n_jobs
    if "n_jobs" in exp:
        out["n_jobs"] = exp["n_jobs"]
    elif forced_threads_from_ctx:
        out["n_jobs"] = 1
    elif "n_jobs" in ctx:
        out["n_jobs"] = ctx["n_jobs"]
    else:
        out["n_jobs"] = DEFAULT_N_JOBS[out["class"]]
    out["verbose"] = resolve("verbose")
    out["max_nbytes"] = _parse_nbytes(resolve("max_nbytes"))
    out["mmap_mode"] = resolve("mmap_mode")
    out["temp_folder"] = resolve("temp_folder")
    return out


def run_case(spec):
    import warnings

    warnings.simplefilter("ignore")
    _register()
    import joblib
    from joblib import Parallel

    threads = [_Main(), _Thread("T1"), _Thread("T2")]
    stacks = [[], [], []]          # per thread: frames {"cm", "set", "before"}
    last_obs = [None, None, None]
    nontrivial = False
    classes = []
    try:
        def _reset():
            # every case starts from joblib's defaults: a violation found by the previous case (contexts left open, or a
            # leak that is the defect itself) must not reach this one.  T1/T2 are new threads anyway; this is for the main thread
            from joblib import parallel as _p
            if hasattr(_p._backend, "config"):
                del _p._backend.config
        for t in range(3):
            threads[t].call(_reset)
            last_obs[t] = threads[t].call(_observe)
            if last_obs[t] != ["LokyBackend", None, None]:
                raise HarnessError("thread %d does not start from the defaults: %r (state leaked between cases)" % (t, last_obs[t]))
        for ri, rule in enumerate(spec["rules"]):
            op, t = rule[0], rule[1]
            where = "rule %d %r (thread %d, open contexts %s); history=%s" % (
                ri, rule, t, json.dumps([[f["kind"], f["set"]] for f in stacks[t]]), json.dumps(spec["rules"][:ri + 1]))
            if op == "enter":
                kind, settings = rule[2], dict((k, v) for k, v in rule[3])
                if len(stacks[t]) >= 4:
                    continue
                if kind == "parallel_backend":
                    if "backend" not in settings:
                        continue
                    settings = {k: v for k, v in settings.items() if k in ("backend", "n_jobs")}
                before = threads[t].call(_observe)

                def _enter(kind=kind, settings=settings):
                    cls = getattr(joblib, kind)
                    kw = dict(settings)
                    if kind == "parallel_backend":
                        cm = cls(kw.pop("backend"), **kw)
                    else:
                        cm = cls(**kw)
                    cm.__enter__()
                    b = cm.parallel_config["backend"]
                    if "backend" in settings:
                        b._vf_ctx = True
                    return cm
                try:
                    cm = threads[t].call(_enter)
                except Exception as e:
                    raise Violation("entering %s(%r) raised %s: %s; %s" % (kind, settings, type(e).__name__, e, where), signature=["enter-raises"])
                eff = dict(settings)
                if kind == "parallel_backend" and "n_jobs" not in eff:
                    eff["n_jobs"] = -1     # documented default of the legacy context manager
                if stacks[t] and set(eff) & set().union(*[set(f["set"]) for f in stacks[t]]):
                    nontrivial = True
                    classes.append("nested-overlapping-keys")
                stacks[t].append({"cm": cm, "set": eff, "before": before, "kind": kind})
                if sum(1 for s in stacks if s) >= 2:
                    nontrivial = True
                    classes.append("contexts-open-in-two-threads")
            elif op == "enter_fail":
                kind, settings = rule[2], dict((k, v) for k, v in rule[3] if k != "backend")
                if kind == "parallel_backend":
                    settings = {k: v for k, v in settings.items() if k == "n_jobs"}
                before = threads[t].call(_observe)

                def _enter_fail(kind=kind, settings=settings):
                    cls = getattr(joblib, kind)
                    try:
                        if kind == "parallel_backend":
                            with cls("vf_no_such_backend", **settings):
                                return "entered"
                        else:
                            with cls(backend="vf_no_such_backend", **settings):
                                return "entered"
                    except Exception as e:
                        return type(e).__name__
                r = threads[t].call(_enter_fail)
                if r == "entered":
                    raise Violation("%s with an unknown backend name was accepted; %s" % (kind, where), signature=["enter-raises"])
                after = threads[t].call(_observe)
                if after != before:
                    raise Violation("a with statement whose context manager failed to build (%s(backend=<unknown>, %r) raised %s) changed what the "
                                    "thread observes: %r -> %r; %s" % (kind, settings, r, before, after, where), signature=["not-restored"])
                if settings:
                    classes.append("failed-enter-with-settings")
            elif op == "exit":
                if not stacks[t]:
                    continue
                frame = stacks[t].pop()
                exceptional = rule[2]

                def _exit(cm=frame["cm"], exceptional=exceptional):
                    if exceptional:
                        e = KeyError("boom")
                        return cm.__exit__(KeyError, e, None)
                    return cm.__exit__(None, None, None)
                r = threads[t].call(_exit)
                if exceptional:
                    nontrivial = True
                    classes.append("exceptional-exit")
                    if r:
                        raise Violation("__exit__ swallowed the exception; %s" % where, signature=["exit-swallows"])
                after = threads[t].call(_observe)
                if after != frame["before"]:
                    raise Violation("after leaving the context the thread observes %r, before entering it observed %r; %s"
                                    % (after, frame["before"], where), signature=["not-restored"])
                if not stacks[t] and after != ["LokyBackend", None, None]:
                    raise Violation("all contexts left but the thread observes %r instead of the defaults; %s" % (after, where),
                                    signature=["not-restored"])
            elif op == "observe":
                pass
            elif op == "construct":
                explicit = dict((k, v) for k, v in rule[2])
                exp = _expected(stacks[t], explicit)

                def _construct(explicit=explicit):
                    p = Parallel(**explicit)
                    b = p._backend
                    return {"class": type(b).__name__, "n_jobs": p.n_jobs, "verbose": p.verbose,
                            "max_nbytes": p._backend_kwargs["max_nbytes"], "mmap_mode": p._backend_kwargs["mmap_mode"],
                            "temp_folder": p._backend_kwargs["temp_folder"], "ctx_instance": bool(getattr(b, "_vf_ctx", False)),
                            "supports_sharedmem": bool(getattr(b, "supports_sharedmem", False)),
                            "uses_threads": bool(getattr(b, "uses_threads", False))}
                try:
                    got = threads[t].call(_construct)
                    raised = None
                except ValueError as e:
                    got, raised = None, e
                except Exception as e:
                    raise Violation("Parallel(%r) raised %s: %s; %s" % (explicit, type(e).__name__, e, where), signature=["construct-raises"])
                if exp["must_raise"]:
                    if raised is None:
                        if got["supports_sharedmem"] and got["uses_threads"]:
                            # joblib rejects the combination; an implementation that accepts it and still yields a
                            # thread-based shared-memory backend satisfies the statement
                            classes.append("inconsistent-accepted-with-threads")
                            continue
                        raise Violation("require='sharedmem' is in force but Parallel(%r) built %s (supports_sharedmem=%s, uses_threads=%s); %s"
                                        % (explicit, got["class"], got["supports_sharedmem"], got["uses_threads"], where),
                                        signature=["sharedmem-ignored"])
                    classes.append("valueerror-expected")
                    continue
                if raised is not None:
                    if exp.get("sharedmem"):
                        classes.append("sharedmem-valueerror")
                        continue     # ValueError is an acceptable outcome when sharedmem is required
                    raise Violation("Parallel(%r) raised ValueError: %s; model expects %r; %s" % (explicit, raised, exp, where),
                                    signature=["construct-raises"])
                if exp.get("sharedmem") and not (got["supports_sharedmem"] and got["uses_threads"]):
                    raise Violation("require='sharedmem' is in force but Parallel(%r) built %s (supports_sharedmem=%s, uses_threads=%s); %s"
                                    % (explicit, got["class"], got["supports_sharedmem"], got["uses_threads"], where),
                                    signature=["sharedmem-ignored"])
                for k in ("class", "n_jobs", "verbose", "max_nbytes", "mmap_mode", "temp_folder"):
                    if got[k] != exp[k]:
                        raise Violation("Parallel(%r).%s = %r, precedence model (explicit > innermost context > outer > default) gives %r; %s"
                                        % (explicit, k, got[k], exp[k], where), signature=["precedence", k])
                if exp.get("ctx_instance") and not got["ctx_instance"]:
                    raise Violation("Parallel(%r) did not use the context's backend instance; %s" % (explicit, where), signature=["precedence", "backend"])
                classes.append("constructed")
            # (2) isolation: nobody else's observation changes
            for u in range(3):
                o = threads[u].call(_observe)
                if u != t and o != last_obs[u]:
                    raise Violation("thread %d now observes %r (before: %r) although the rule ran in thread %d; %s"
                                    % (u, o, last_obs[u], t, where), signature=["leaks-across-threads"])
                last_obs[u] = o
    finally:
        # unwind whatever is still open so that no state leaks into the next case
        for t in range(3):
            while stacks[t]:
                frame = stacks[t].pop()
                try:
                    threads[t].call(lambda cm=frame["cm"]: cm.__exit__(None, None, None))
                except Exception:
                    pass
            threads[t].stop()
    return {"nontrivial": nontrivial, "classes": sorted(set(classes))}


def shard(ctx):
    ctx.hyp_run(strategy(), max_examples=ctx.pick(400, 6000))
