"""C04 - task failures surface as that exception; the call terminates; Parallel stays reusable and clean."""

import json

from hypothesis import strategies as st

from ..core import Inconclusive, Violation
from ..engines import sched_strat as SS
from . import c01

PROPERTY_ID = "C04"
LEVEL = "exploration"
RULE = (
    "E1 (controlled backend): configurations as in C01 x histories of 2-4 calls on one Parallel object (inside or outside a "
    "with-block), each call either clean or carrying a fault plan: 1-3 failing tasks (exception class and args drawn from a "
    "library), an input iterator raising at a drawn position, or timeout=0.05..0.2 s with one batch that never completes.  "
    "The schedule (completion order, synchronous completions, gates holding a thread inside iterator/submit/"
    "retrieve_result_callback/batch_completed/compute_batch_size while other batches complete or fail, late completions of "
    "aborted batches delivered during the NEXT call) is drawn too.  Oracle: a call with a fault raises; type and args equal "
    "those of a failing task that the execution log shows was run, or the iterator's exception, or TimeoutError; every call "
    "returns control (12 s watchdog with nothing left for the driver to do; normal 20-300 ms); the following clean call "
    "returns exactly its own results and submits only its own tasks.  E2 (real backends) repeats fail/succeed/fail histories "
    "on threading/loky/multiprocessing.  Non-trivial: a failure registered while >= 1 other batch is in flight or the "
    "look-ahead queue is non-empty, followed by a further call on the same object.  distinct = hash of (config, history, "
    "abstract schedule)."
)
ASSUMPTIONS = [
    "only Exception subclasses are raised by tasks (BaseException is outside the statement)",
    "any one of several raised task exceptions is an acceptable outcome",
    "a watchdog of 12 s with no driver action pending decides 'does not terminate' (normal latency < 0.3 s)",
]
SHARDS = {"quick": 8, "thorough": 16}


@st.composite
def scenarios(draw):
    spec = draw(SS.configs(return_as=("list", "list", "generator", "generator_unordered")))
    n_calls = draw(st.integers(2, 4))
    calls = []
    any_timeout = False
    for ci in range(n_calls):
        n = draw(SS.n_tasks(spec).filter(lambda x: x >= 1))
        call = {"n": n, "sync": draw(st.lists(st.integers(0, 12), max_size=3, unique=True)),
                "gates": draw(SS.gates()), "fail": {}, "iter_fail": None, "never": []}
        kind = draw(st.sampled_from(["task", "task", "task", "iter", "timeout", "clean", "clean"]))
        if ci == n_calls - 1 and draw(st.booleans()):
            kind = "clean"
        if kind == "task":
            for idx in draw(st.lists(st.integers(0, n - 1), min_size=1, max_size=3, unique=True)):
                call["fail"][str(idx)] = draw(st.sampled_from(["value", "key", "custom", "os", "zerodiv", "type"]))
        elif kind == "iter" and spec["input"] != "list":
            call["iter_fail"] = draw(st.integers(0, n))
        elif kind == "timeout":
            call["never"] = [draw(st.integers(0, 6))]
            any_timeout = True
        steps = st.one_of(st.tuples(st.just("c"), st.integers(0, 7)).map(list),
                          st.tuples(st.just("late"), st.integers(0, 5)).map(list))
        if spec["return_as"] != "list":
            steps = st.one_of(steps, st.just(["next"]))
        call["steps"] = draw(st.lists(steps, max_size=30))
        call["kind"] = kind
        if ci > 0:
            # batches abandoned by the previous (failed) call that complete before this call starts
            call["late_before"] = draw(st.lists(st.integers(0, 5), max_size=3))
        calls.append(call)
    spec["calls"] = calls
    if any_timeout:
        spec["timeout"] = draw(st.sampled_from([0.1, 0.2, 0.3]))
    spec["mode"] = "sched"
    return spec


def strategy():
    return scenarios()


def signature(spec):
    """Static root-cause class (for the one listed known finding): failing tasks on the legacy multiprocessing backend."""
    if spec.get("mode") == "real" and spec.get("backend") == "multiprocessing" and any(c.get("fail") for c in spec["calls"]):
        return ["real-hang", "multiprocessing"]
    return None


def _expected_excs(spec, call, report, rec):
    from ..engines.sched import EXC, IterFailure

    k, base = rec["k"], rec["base"]
    evs = SS.call_events(report, k)
    execd = set(e["idx"] for e in evs if e["kind"] == "exec")
    # late completions of this call's jobs executed during later calls do not count: restrict to this call's events
    out = []
    for i, exc in call.get("fail", {}).items():
        idx = base + int(i)
        if idx in execd:
            e = EXC[exc](idx)
            out.append((type(e).__name__, repr(e.args)))
    if any(e["kind"] == "iter_raise" for e in evs):
        e = IterFailure("iterator failed at %d" % call["iter_fail"])
        out.append((type(e).__name__, repr(e.args)))
    return out


def run_case(spec):
    if spec.get("mode") == "real":
        from ..engines import realpar
        return realpar.run_c04(spec)
    from ..engines import sched

    report = sched.run(spec)
    harness = [p for p in report["problems"] if p.startswith("harness")]
    if harness:
        raise Inconclusive("; ".join(harness))
    nontrivial = False
    prev_failed = False
    prev_pending = False
    feats = []
    classes = ["return_as=" + spec["return_as"], "managed=%s" % spec["managed"]]
    for rec, call in zip(report["calls"], spec["calls"]):
        k, n = rec["k"], rec["n"]
        where = "call %d/%d (n=%d kind=%s n_jobs=%d batch_size=%r pre_dispatch=%r return_as=%s input=%s managed=%s)" % (
            k, len(spec["calls"]), n, call.get("kind"), spec["n_jobs"], spec["batch_size"], spec["pre_dispatch"], spec["return_as"],
            spec["input"], spec["managed"])
        if rec["outcome"] == "hang":
            raise Violation("%s did not terminate: driver was waiting for %s with nothing left to do; frames=%s"
                            % (where, report["hang"]["waiting_for"], json.dumps(report["hang"]["frames"])[:1500]),
                            signature=["hang"])
        evs = SS.call_events(report, k)
        faulty = bool(call.get("fail")) or call.get("iter_fail") is not None or bool(call.get("never"))
        raised = rec.get("exception")
        # submit events of this call must only carry this call's tasks
        foreign = [i for e in evs if e["kind"] == "submit" for i in e["indices"] if not (rec["base"] <= i < rec["base"] + 1000)]
        if foreign:
            raise Violation("%s submitted tasks %r left over from an earlier call" % (where, foreign[:10]), signature=["leftover"])
        if not faulty and raised and raised["type"] == "TimeoutError" and spec.get("timeout"):
            # the constructor's timeout applies to every call: the driver itself was slower than the
            # timeout in completing the awaited batch - the documented TimeoutError, not a violation
            classes.append("harness-slower-than-timeout")
            prev_failed, prev_pending = True, False
        elif not faulty:
            if raised:
                raise Violation("%s raised %r although nothing fails in it%s" % (where, raised, " (previous call failed)" if prev_failed else ""),
                                signature=["clean-call-raises", prev_failed])
            try:
                c01.check_call(spec, report, rec)
            except Violation as v:
                raise Violation(v.msg + (" [after a failed call]" if prev_failed else ""), signature=["leftover" if prev_failed else "c01"])
            if prev_failed and prev_pending:
                nontrivial = True
            prev_failed = False
        else:
            execd_fail = _expected_excs(spec, call, report, rec)
            never_live = any(j["ordinal"] in call.get("never", []) for j in SS.jobs_of(report, k))
            must_raise = bool(execd_fail) or never_live
            if not raised:
                if must_raise:
                    got = rec["results"]
                    raise Violation("%s returned %r instead of raising (expected one of %r%s)"
                                    % (where, (got or [])[:10], execd_fail, " or TimeoutError" if call.get("never") else ""),
                                    signature=["swallowed"])
                # the faulty step was never reached (e.g. iterator position beyond what was pulled): must equal the clean oracle
                c01.check_call(spec, report, rec)
                prev_failed = False
            else:
                ok = (raised["type"], raised["args"]) in execd_fail
                if not ok and spec.get("timeout") and raised["type"] == "TimeoutError":
                    ok = True
                if not ok:
                    raise Violation("%s raised %r, which is none of the exceptions raised by its tasks/iterator %r%s"
                                    % (where, raised, execd_fail, " nor TimeoutError" if call.get("never") else ""),
                                    signature=["wrong-exception"])
                # was anything pending when the failure was registered?
                fail_ev = next((e for e in evs if e["kind"] == "cb_enter" and e.get("failed")), None)
                prev_pending = bool(fail_ev and fail_ev["inflight"] > 1) or any(e["kind"] == "iter_raise" for e in evs) or bool(call.get("never"))
                prev_failed = True
                classes.append("fault=" + call.get("kind", "?"))
        f = SS.schedule_features(report, k)
        feats.append([n, call.get("kind"), f["order"], f["sync"], f["gates"], f["probes"]])
    others = [p for p in report["problems"] if p.startswith("callback raised")]
    if others:
        raise Violation("joblib's completion callback raised into the backend: %s" % others[0], signature=["callback-raises"])
    if any(e["kind"] == "complete_start" and e.get("late") for e in report["trace"]):
        classes.append("late-completion")
    key = [spec["n_jobs"], spec["batch_size"], spec.get("auto_sizes"), spec["pre_dispatch"], spec["return_as"], spec["input"],
           spec["managed"], feats]
    return {"nontrivial": nontrivial, "classes": sorted(set(classes)), "key": key}


def shard(ctx):
    ctx.hyp_run(strategy(), max_examples=ctx.pick(200, 3000), label="sched")
    from ..engines import realpar
    if hasattr(realpar, "c04_strategy"):
        ctx.hyp_run(realpar.c04_strategy(ctx), max_examples=ctx.pick(15, 300), label="real", shrink=False)
        ctx.hyp_run(realpar.c04_stress_strategy(ctx), max_examples=ctx.pick(4, 40), label="stress", shrink=False)
