"""C10 - a dying loky worker yields a prompt error, never a hang, and workers heal."""

import json
import os
import signal
import threading
import time
import warnings

from hypothesis import strategies as st

from ..core import HarnessError, Inconclusive, Violation

PROPERTY_ID = "C10"
LEVEL = "fault_enumeration"
RULE = (
    "Generated fault matrix on the real loky backend: n_jobs 2..4, histories of 2-5 consecutive calls on one Parallel "
    "object (with and without a with-block; batch_size / pre_dispatch drawn) with 0-2 faults; fault = victims 1..n_jobs x "
    "kind {SIGKILL, SIGTERM, SIGSEGV (null dereference), os.abort, os._exit(0), os._exit(1), SIGBUS, SIGUSR1, two real-time signals without a name in signal.Signals} x instant {while the worker "
    "unpickles the task arguments, at task start, mid-task after a drawn sleep, while pickling the result, while sending a "
    "5-30 MB result (parent-side kill after a drawn delay), while the caller thread is still dispatching (input generator that stalls "
    "50-1000 ms before a drawn item, or pre_dispatch='all' with 30-80 tasks), idle between two calls (kill the pids reported by the previous "
    "call, wait a drawn 0-200 ms), during the next call's start-up (killer thread with a drawn delay)}.  Oracle: every call "
    "finishes within 30 s (repeating SIGALRM watchdog; normal 0.03-1 s); a call either returns exactly the expected list or raises "
    "TerminatedWorkerError / BrokenProcessPool; at most one call raises per injected fault; the call after a failed one "
    "returns the exact results computed by live processes that are not the victims.  Non-trivial: a fault that landed "
    "(victim pid gone) in a history with a subsequent call.  distinct = hash of the history."
)
ASSUMPTIONS = [
    "kill instants inside loky's own queue locks are reached only probabilistically (large results + delayed kills)",
    "a 30 s watchdog decides 'hang' (normal: 30-50 ms to fail, ~0.3 s to heal)",
    "POSIX only",
]
SHARDS = {"quick": 12, "thorough": 16}
TIMEOUT = {"quick": 900, "thorough": 5400}
KINDS = ["SIGKILL", "SIGTERM", "SIGSEGV", "abort", "exit0", "exit1", "SIGBUS", "SIGUSR1", "SIGRT+1", "SIGRT+9"]
INSTANTS = ["unpickle", "start", "mid", "pickle_result", "send", "idle_before", "startup"]
WATCHDOG = 30.0


def strategy():
    fault = st.fixed_dictionaries({
        "kind": st.sampled_from(KINDS), "instant": st.sampled_from(INSTANTS), "victims": st.integers(1, 4),
        "delay_ms": st.sampled_from([0, 1, 5, 20, 50, 200]), "at": st.integers(0, 6),
    })
    # "slow": the input is a generator that stalls before item `at` - the caller thread is then still inside Parallel's
    # dispatch (holding its lock) when the worker dies and the executor's manager thread fails the pending futures
    call = st.fixed_dictionaries({"n": st.one_of(st.integers(1, 12), st.integers(1, 12), st.integers(30, 80)),
                                  "fault": st.one_of(st.none(), fault, fault),
                                  "sleep_ms": st.sampled_from([0, 0, 2, 10]),
                                  "slow": st.one_of(st.none(), st.none(),
                                                    st.tuples(st.integers(1, 8), st.sampled_from([50, 300, 1000])).map(list))})
    return st.fixed_dictionaries({
        "n_jobs": st.integers(2, 4), "managed": st.booleans(), "batch_size": st.sampled_from([1, 1, 2, "auto"]),
        "pre_dispatch": st.sampled_from(["2*n_jobs", "all", "n_jobs"]),
        "calls": st.lists(call, min_size=2, max_size=5),
    }).filter(lambda s: sum(1 for c in s["calls"] if c["fault"]) <= 2)


def signature(spec):
    """Static root-cause class: histories that kill a worker while it is sending a (large) result."""
    if any(c["fault"] and c["fault"]["instant"] == "send" for c in spec["calls"]):
        return ["hang", "send"]
    return None


def _recover():
    """After a hang: kill every worker of the current executor so that its manager thread unblocks and the
    next call gets a fresh executor."""
    try:
        from joblib.externals.loky import reusable_executor as RE
        ex = RE._executor
        if ex is not None:
            for p in list(getattr(ex, "_processes", {}).values()):
                try:
                    os.kill(p.pid, signal.SIGKILL)
                except OSError:
                    pass
    except Exception:
        pass


def _reset_executor():
    """Histories must not leak into each other: a parent-side kill of the LAST call of a history can land after that call
    has returned (the worker then dies idle, and the first call of the next history would fail for a fault it did not
    inject).  Every history therefore ends by discarding the shared executor; the next one starts fresh workers."""
    try:
        from joblib.externals.loky import reusable_executor as RE
        ex = RE._executor
    except Exception:
        return
    if ex is None:
        return
    signal.setitimer(signal.ITIMER_REAL, WATCHDOG, 3.0)
    try:
        try:
            ex.shutdown(wait=True, kill_workers=True)
        finally:
            signal.setitimer(signal.ITIMER_REAL, 0)
    except BaseException:
        _recover()


class _Hang(BaseException):
    pass


def _alarm(signum, frame):
    raise _Hang()


def _pids_from(logpath, kind="S"):
    out = {}
    try:
        with open(logpath) as f:
            for ln in f.read().splitlines():
                k, idx, pid = ln.split()
                if k == kind:
                    out[int(idx)] = int(pid)
    except OSError:
        pass
    return out


def _alive(pid):
    try:
        os.kill(pid, 0)
        return True
    except ProcessLookupError:
        return False
    except PermissionError:
        return True


def _kill(pid, kind):
    sig = {"SIGKILL": signal.SIGKILL, "SIGTERM": signal.SIGTERM, "SIGSEGV": signal.SIGSEGV, "abort": signal.SIGABRT,
           "SIGBUS": signal.SIGBUS, "SIGUSR1": signal.SIGUSR1, "SIGRT+1": signal.SIGRTMIN + 1, "SIGRT+9": signal.SIGRTMIN + 9}.get(kind, signal.SIGKILL)
    try:
        os.kill(pid, sig)
    except OSError:
        pass


def run_case(spec):
    warnings.simplefilter("ignore")
    from joblib import Parallel, delayed
    from joblib.externals.loky import get_reusable_executor
    from joblib.externals.loky.process_executor import BrokenProcessPool, TerminatedWorkerError
    from vf import tasks

    scratch = os.environ.get("VF_SCRATCH", "/tmp")
    me = os.getpid()
    par = Parallel(n_jobs=spec["n_jobs"], backend="loky", batch_size=spec["batch_size"], pre_dispatch=spec["pre_dispatch"])
    signal.signal(signal.SIGALRM, _alarm)
    known_pids = []
    faults_injected = 0
    failures = 0
    landed = False
    nontrivial = False
    classes = []
    prev_failed_victims = set()
    if spec["managed"]:
        par.__enter__()
    try:
        for ci, call in enumerate(spec["calls"]):
            logpath = os.path.join(scratch, "c10-%d-%d.log" % (me, ci))
            if os.path.exists(logpath):
                os.unlink(logpath)
            f = call["fault"]
            n = call["n"]
            base = 100 * ci
            items = []
            killer = None
            victims_idx = set()
            victim_pids = set()
            where = "call %d/%d fault=%r; history=%s" % (ci + 1, len(spec["calls"]), f, json.dumps(spec))
            if f:
                faults_injected += 1
                victims_idx = set((f["at"] + j) % n for j in range(min(f["victims"], n)))
                if f["instant"] == "idle_before":
                    for pid in known_pids[:f["victims"]]:
                        _kill(pid, f["kind"])
                        victim_pids.add(pid)
                    time.sleep(f["delay_ms"] / 1000.0)
                elif f["instant"] == "startup":
                    targets = list(known_pids[:f["victims"]])
                    victim_pids.update(targets)

                    def _k(targets=targets, f=f):
                        time.sleep(f["delay_ms"] / 1000.0)
                        for pid in targets:
                            _kill(pid, f["kind"])
                    killer = threading.Thread(target=_k, daemon=True)
                elif f["instant"] == "send":
                    def _k(f=f, logpath=logpath, victims_idx=victims_idx):
                        t_end = time.time() + 20
                        done = set()
                        while time.time() < t_end and len(done) < len(victims_idx):
                            ends = _pids_from(logpath, "E")
                            for i in victims_idx:
                                if (base + i) in ends and i not in done:
                                    time.sleep(f["delay_ms"] / 1000.0)
                                    victim_pids.add(ends[base + i])
                                    _kill(ends[base + i], f["kind"])
                                    done.add(i)
                            time.sleep(0.001)
                    killer = threading.Thread(target=_k, daemon=True)
            for i in range(n):
                kw = {"sleep_ms": call["sleep_ms"]}
                args = [base + i, logpath]
                if f and i in victims_idx:
                    if f["instant"] in ("start", "mid", "pickle_result"):
                        kw["fault"] = [f["instant"], f["kind"]]
                        kw["parent_pid"] = me
                        if f["instant"] == "mid":
                            kw["sleep_ms"] = f["delay_ms"]
                    elif f["instant"] == "unpickle":
                        kw["bomb"] = tasks.BombOnUnpickle(f["kind"])
                    elif f["instant"] == "send":
                        kw["big"] = f.get("big_mb", 5 + 5 * (f["at"] % 6)) * 2 ** 20
                items.append(delayed(tasks.ftask)(*args, **kw))
            slow = call.get("slow")
            if slow:
                def _slow_input(items=items, at=min(slow[0], n - 1), ms=slow[1]):
                    for i, it in enumerate(items):
                        if i == at:
                            time.sleep(ms / 1000.0)
                        yield it
                items = _slow_input()
                classes.append("input-stalls-during-dispatch")
            if killer:
                killer.start()
            t0 = time.time()
            outcome, val = None, None
            # repeating timer: joblib's own abort path (BaseException handler -> executor shutdown) can block as well
            signal.setitimer(signal.ITIMER_REAL, WATCHDOG, 3.0)
            hung = False
            try:
                try:
                    val = par(items)
                    outcome = "returned"
                finally:
                    signal.setitimer(signal.ITIMER_REAL, 0)
            except _Hang:
                hung = True
            except (TerminatedWorkerError, BrokenProcessPool) as e:
                outcome, val = "terminated", e
            except Exception as e:
                outcome, val = "raised", e
            if hung:
                _recover()
                time.sleep(0.5)
                raise Violation("Parallel call did not finish within %.0f s after a worker died (fault %r); %s" % (WATCHDOG, f, where),
                                signature=["hang", f["instant"] if f else None])
            dt = time.time() - t0
            starts = _pids_from(logpath, "S")
            if killer:
                killer.join(timeout=25)
            if f and f["instant"] in ("start", "mid", "pickle_result", "unpickle"):
                victim_pids.update(pid for i, pid in starts.items() if (i - base) in victims_idx)
            if outcome == "raised":
                raise Violation("call raised %s: %s instead of a worker-termination error or results; %s"
                                % (type(val).__name__, str(val)[:200], where), signature=["wrong-exception", type(val).__name__])
            if outcome == "terminated":
                failures += 1
                if failures > faults_injected:
                    raise Violation("more calls failed (%d) than faults were injected (%d): a fault made more than one call fail; %s"
                                    % (failures, faults_injected, where), signature=["fails-twice"])
                classes.append("call-failed:" + (f["instant"] if f else "after-earlier-fault"))
                prev_failed_victims = set(victim_pids)
            else:
                want = [("r", base + i) for i in range(n)]
                got = [(v[0], v[1]) if isinstance(v, tuple) and len(v) >= 2 else v for v in val]
                if f and f["instant"] == "pickle_result":
                    # the victims' results can never arrive: returning at all means the fault did not land (or partial results)
                    pass
                if got != want:
                    raise Violation("call returned %r, expected %r (partial or wrong results after a worker death); %s"
                                    % (got[:12], want[:12], where), signature=["wrong-results", f and f["instant"]])
                # healthy workers: pids that ran tasks now are alive and are not victims of the previous failed call
                ran = set(starts.values())
                if prev_failed_victims & ran:
                    raise Violation("a task ran in process %r that was a victim of the previous fault; %s" % (sorted(prev_failed_victims & ran), where),
                                    signature=["dead-worker-reused"])
                prev_failed_victims = set()
                if landed:
                    nontrivial = True
            if f:
                gone = [p for p in victim_pids if not _alive(p)]
                if gone or outcome == "terminated":
                    landed = True
                    classes.append("landed:" + f["instant"])
                    classes.append("kind:" + f["kind"])
            known_pids = [p for p in dict.fromkeys(starts.values()) if _alive(p)]
            try:
                os.unlink(logpath)
            except OSError:
                pass
    finally:
        signal.setitimer(signal.ITIMER_REAL, 0)
        if spec["managed"]:
            signal.setitimer(signal.ITIMER_REAL, WATCHDOG, 3.0)
            try:
                par.__exit__(None, None, None)
            except BaseException:
                _recover()
            finally:
                signal.setitimer(signal.ITIMER_REAL, 0)
        _reset_executor()
    return {"nontrivial": nontrivial, "classes": sorted(set(classes))}


def shard(ctx):
    ctx.hyp_run(strategy(), max_examples=ctx.pick(14, 160), shrink=False)
