"""C01 - Parallel returns what the sequential loop returns, in order, each task once."""

import json

from hypothesis import strategies as st

from ..core import Inconclusive, Violation, jhash
from ..engines import sched_strat as SS

PROPERTY_ID = "C01"
LEVEL = "exploration"
RULE = (
    "E1 (controlled backend): Hypothesis draws a configuration (n_jobs 2..6, batch_size 1/2/3/7/'auto' with drawn sizes <= 8, "
    "pre_dispatch in {'all', ints, 'n_jobs', '2*n_jobs', '1.5*n_jobs', '2.5*n_jobs', '0.7*n_jobs', '3*n_jobs-1', ...}, return_as list|generator, input "
    "list|generator|iterator, with/without a with-block), 1-3 consecutive calls with task counts straddling every look-ahead "
    "and batch boundary, and a schedule: which in-flight batch completes next, which batches complete synchronously inside "
    "submit(), and up to 3 gates (inside the input iterator, submit, compute_batch_size, retrieve_result_callback, "
    "batch_completed) at which a thread is held while other batches are completed from other threads.  E2 (real backends): "
    "the same configuration space on sequential/threading/loky/multiprocessing with drawn task sleeps, plus a pre-emption stress variant (threading backend, 100-1000 trivial "
    "tasks, 3-6 calls, large numeric pre_dispatch, interpreter switch interval 1 us, so that the caller is pre-empted between any two bytecodes "
    "of its dispatch code).  Oracle: results == "
    "[f(*a, **k) for tasks] in order; the tasks' own execution log contains every index exactly once; the batches handed to "
    "submit() concatenate, in submission order, to range(n).  Non-trivial (E1): >= 2 batches and (a completion out of "
    "submission order, or a synchronous completion, or a completion issued while another thread is held at a gate); "
    "(E2): n_jobs > 1 and >= 2 batches.  distinct = hash of (config, n, abstract schedule actually executed)."
)
ASSUMPTIONS = [
    "the harness' backend obeys the documented backend API (submit returns a future-like, the callback is called once per job)",
    "interleavings inside joblib's own statement sequences (no user-owned call in the window) are only reached by the real-backend runs",
    "batch sizes above 8 and n_jobs above 4 are not generated in the controlled engine",
]
SHARDS = {"quick": 8, "thorough": 16}
NEEDS = ()


@st.composite
def scenarios(draw):
    spec = draw(SS.configs(return_as=("list", "list", "generator")))
    calls = []
    for _ in range(draw(st.integers(1, 3))):
        n = draw(SS.n_tasks(spec))
        call = {"n": n, "sync": draw(st.lists(st.integers(0, 12), max_size=4, unique=True)),
                "gates": draw(SS.gates())}
        if spec["return_as"] == "list":
            call["steps"] = draw(SS.complete_steps())
        else:
            call["steps"] = draw(st.lists(st.one_of(st.tuples(st.just("c"), st.integers(0, 7)).map(list),
                                                    st.just(["next"])), max_size=40))
        calls.append(call)
    spec["calls"] = calls
    spec["mode"] = "sched"
    return spec


def strategy():
    return scenarios()


def check_call(spec, report, rec):
    from ..engines.sched import Engine

    k, n, base = rec["k"], rec["n"], rec["base"]
    where = "call %d (n=%d, n_jobs=%d, batch_size=%r, pre_dispatch=%r, return_as=%s, input=%s)" % (
        k, n, spec["n_jobs"], spec["batch_size"], spec["pre_dispatch"], spec["return_as"], spec["input"])
    if rec["outcome"] == "hang":
        raise Violation("%s never delivered its results: %s; frames=%s" % (where, report["hang"]["waiting_for"],
                                                                         json.dumps(report["hang"]["frames"])[:1500]))
    if rec["outcome"] == "raised" or rec.get("exception"):
        raise Violation("%s raised %r although no task fails" % (where, rec["exception"]))
    expected = [Engine.expected_value(base + i, i) for i in range(n)]
    got = list(rec["results"])
    if spec["return_as"] == "generator_unordered":
        # completion order is judged by C16; here: every result exactly once
        got, expected = sorted(got, key=repr), sorted(expected, key=repr)
    if got != expected:
        raise Violation("%s returned %r, sequential loop gives %r" % (where, got[:40], expected[:40]))
    evs = SS.call_events(report, k)
    execd = [e["idx"] for e in evs if e["kind"] == "exec"]
    if sorted(execd) != [base + i for i in range(n)]:
        dup = sorted(set(x for x in execd if execd.count(x) > 1))
        miss = sorted(set(base + i for i in range(n)) - set(execd))
        raise Violation("%s: tasks not executed exactly once: duplicated %r, missing %r, foreign %r"
                        % (where, dup, miss, sorted(set(execd) - set(base + i for i in range(n)))))
    concat = [i for j in SS.jobs_of(report, k) for i in j["indices"]]
    if concat != [base + i for i in range(n)]:
        raise Violation("%s: batches handed to submit() do not concatenate to range(n): %r" % (where, concat[:60]))


def run_case(spec):
    if spec.get("mode") == "real":
        from ..engines import realpar
        return realpar.run_c01(spec)
    from ..engines import sched

    report = sched.run(spec)
    harness = [p for p in report["problems"] if p.startswith("harness")]
    if harness:
        raise Inconclusive("; ".join(harness))
    nontrivial = False
    feats = []
    for rec in report["calls"]:
        check_call(spec, report, rec)
        f = SS.schedule_features(report, rec["k"])
        feats.append([rec["n"], f["order"], f["sync"], f["gates"], f["probes"]])
        if f["n_batches"] >= 2 and (f["out_of_order"] or f["sync"] or f["probes"]):
            nontrivial = True
    others = [p for p in report["problems"] if p.startswith("callback raised")]
    if others:
        raise Violation("joblib's completion callback raised into the backend: %s" % others[0])
    classes = ["return_as=" + spec["return_as"], "input=" + spec["input"], "bs=%s" % spec["batch_size"],
               "calls=%d" % len(spec["calls"])]
    if any(f[2] for f in feats):
        classes.append("sync-completion")
    if any(f[4] for f in feats):
        classes.append("probe-under-gate")
    key = [spec["n_jobs"], spec["batch_size"], spec.get("auto_sizes"), spec["pre_dispatch"], spec["return_as"], spec["input"],
           spec["managed"], feats]
    return {"nontrivial": nontrivial, "classes": classes, "key": key}


def shard(ctx):
    ctx.hyp_run(strategy(), max_examples=ctx.pick(250, 4000), label="sched")
    from ..engines import realpar
    if hasattr(realpar, "c01_strategy"):
        ctx.hyp_run(realpar.c01_strategy(ctx), max_examples=ctx.pick(25, 400), label="real", shrink=False)
        ctx.hyp_run(realpar.c01_stress_strategy(ctx), max_examples=ctx.pick(4, 40), label="stress", shrink=False)
