"""C18 - reduce_size enforces every limit by evicting the minimal LRU prefix."""

import datetime
import os
import shutil
import time
from fractions import Fraction

from hypothesis import strategies as st

from ..core import Inconclusive, Violation

PROPERTY_ID = "C18"
LEVEL = "exploration"
RULE = (
    "Hypothesis draws a store of 0-12 entries created through two cached functions whose output size is drawn (0..5000 "
    "bytes; one entry in eight is then emptied to a total size of 0), access times assigned with os.utime from 7 slots 1000 s apart (ties frequent), and the three limits: "
    "bytes_limit in {None, 0, total, total-1, size-after-evicting-k-oldest +-1, '1K', '0.5K', '2M', ...}, items_limit in "
    "{None, 0..13}, age_limit in {None, a timedelta falling between two access-time slots (>= 400 s from any access time)}. "
    "Oracle (inventory taken by the harness' own os.walk/stat before and after): (1) survivors meet every given limit; (2) "
    "max atime(evicted) <= min atime(survivors); (3) minimality: putting back one most-recently-used evicted entry breaks a "
    "limit (ties in any order accepted); (4) survivors are served from cache (check_call_in_cache True, no execution, right "
    "value) and evicted entries recompute the right value.  memstr_to_bytes is compared with an independent exact parse.  "
    "Non-trivial: >= 3 entries of unequal size and a limit forcing a strict non-empty, non-total prefix.  distinct = hash "
    "of (entries, limits)."
)
ASSUMPTIONS = [
    "no concurrent writer (that is C11)",
    "age deadlines are kept >= 400 s away from every access time, so wall-clock drift during a case cannot change the verdict",
    "the cache size is the sum of the file sizes in the entry directories",
]
SHARDS = {"quick": 8, "thorough": 16}
SLOT = 1000.0


def strategy():
    # 4th field: the entry is then emptied (0-byte output.pkl, no metadata.json - e.g. what a writer killed right after
    # creating the file leaves): an entry of total size 0 that still counts for the items and age limits
    entry = st.tuples(st.integers(0, 1), st.sampled_from([0, 1, 10, 100, 1000, 1023, 1024, 5000]) | st.integers(0, 5000),
                      st.integers(0, 6), st.integers(0, 7).map(lambda x: x == 0)).map(list)
    bytes_sym = st.one_of(
        st.just(["none"]), st.just(["none"]), st.just(["abs", 0]), st.tuples(st.just("total"), st.sampled_from([0, -1, 1])).map(list),
        st.tuples(st.just("after"), st.integers(0, 12), st.sampled_from([0, -1, 1])).map(list),
        st.tuples(st.just("after"), st.integers(1, 4), st.sampled_from([0, -1, 1])).map(list),
        st.sampled_from(["1K", "0.5K", "2K", "4K", "10K", "2M", "0K"]).map(lambda s: ["str", s]),
        st.integers(0, 30000).map(lambda n: ["abs", n]),
    )
    return st.fixed_dictionaries({
        "mode": st.just("store"),
        "entries": st.lists(entry, max_size=12, unique_by=lambda e: (e[0], e[1])) | st.lists(entry, min_size=4, max_size=12, unique_by=lambda e: (e[0], e[1])),
        "bytes": bytes_sym,
        "items": st.one_of(st.none(), st.none(), st.integers(1, 6), st.integers(0, 13)),
        "age": st.one_of(st.none(), st.integers(0, 7)),
        "compress": st.booleans(),
    })


def _inventory(loc):
    """entry dir -> (size, atime) by the harness' own walk."""
    inv = {}
    for root, dirs, files in os.walk(loc):
        if "output.pkl" in files:
            size = sum(os.stat(os.path.join(root, f)).st_size for f in files)
            inv[root] = (size, os.stat(os.path.join(root, "output.pkl")).st_atime)
    return inv


def _parse_mem(text):
    units = {"K": 1024, "M": 1024 ** 2, "G": 1024 ** 3}
    return int(Fraction(text[:-1]) * units[text[-1]])


def run_case(spec):
    if spec.get("mode") == "memstr":
        return _run_memstr(spec)
    import joblib
    from vf import tasks

    scratch = os.environ.get("VF_SCRATCH", "/tmp")
    loc = os.path.join(scratch, "c18-%d" % os.getpid())
    shutil.rmtree(loc, ignore_errors=True)
    try:
        mem = joblib.Memory(loc, compress=spec["compress"], verbose=0)
        funcs = [mem.cache(tasks.blob), mem.cache(tasks.blob2)]
        plain = [tasks.blob, tasks.blob2]
        now = time.time()
        entries = []
        for i, ent in enumerate(spec["entries"]):
            fi, n, slot = ent[:3]
            zero = len(ent) > 3 and ent[3]
            before = set(_inventory(loc))
            funcs[fi](n, "t%d" % i)
            new = set(_inventory(loc)) - before
            if len(new) != 1:
                raise Inconclusive("entry creation did not create exactly one directory")
            d = new.pop()
            if zero:
                for fn in os.listdir(d):
                    if fn == "output.pkl":
                        open(os.path.join(d, fn), "wb").close()
                    else:
                        os.unlink(os.path.join(d, fn))
            at = now - (slot * SLOT + 500.0)
            os.utime(os.path.join(d, "output.pkl"), (at, at))
            os.utime(d, (at, at))
            entries.append({"dir": d, "fi": fi, "n": n, "tag": "t%d" % i, "slot": slot, "zero": bool(zero)})
        inv = _inventory(loc)
        for e in entries:
            e["size"], e["atime"] = inv[e["dir"]]
        total = sum(e["size"] for e in entries)
        by_age = sorted(entries, key=lambda e: e["atime"])
        # resolve symbolic limits
        b = spec["bytes"]
        if b[0] == "none":
            bytes_limit, bytes_num = None, None
        elif b[0] == "abs":
            bytes_limit = bytes_num = b[1]
        elif b[0] == "total":
            bytes_limit = bytes_num = max(0, total + b[1])
        elif b[0] == "after":
            k = min(b[1], len(entries))
            bytes_limit = bytes_num = max(0, total - sum(e["size"] for e in by_age[:k]) + b[2])
        else:
            bytes_limit, bytes_num = b[1], _parse_mem(b[1])
        items_limit = spec["items"]
        age_limit, deadline = None, None
        if spec["age"] is not None:
            age_s = spec["age"] * SLOT   # falls between slot (age-1) [at age*1000-500] and slot age [at age*1000+500]
            age_limit = datetime.timedelta(seconds=age_s)
            deadline = now - age_s
        t0 = time.time()
        try:
            mem.reduce_size(bytes_limit=bytes_limit, items_limit=items_limit, age_limit=age_limit)
        except Exception as e:
            raise Violation("reduce_size(bytes_limit=%r, items_limit=%r, age_limit=%r) raised %s: %s" % (bytes_limit, items_limit, age_limit, type(e).__name__, e))
        if time.time() - now > 300:
            raise Inconclusive("case took too long for the age margin")
        after = _inventory(loc)
        S = [e for e in entries if e["dir"] in after]
        E = [e for e in entries if e["dir"] not in after]
        limits = "bytes_limit=%r(=%r) items_limit=%r age_limit=%r; entries(size,slot) oldest first=%r; evicted=%r" % (
            bytes_limit, bytes_num, items_limit, age_limit, [(e["size"], e["slot"]) for e in by_age],
            [(e["size"], e["slot"]) for e in sorted(E, key=lambda e: e["atime"])])

        def breaks(survivors):
            if bytes_num is not None and sum(e["size"] for e in survivors) > bytes_num:
                return "bytes"
            if items_limit is not None and len(survivors) > items_limit:
                return "items"
            if deadline is not None and any(e["atime"] <= deadline for e in survivors):
                return "age"
            return None

        why = breaks(S)
        if why:
            raise Violation("after reduce_size the %s limit is not met: %s" % (why, limits), signature=["limit-not-met", why])
        if E and S and max(e["atime"] for e in E) > min(e["atime"] for e in S):
            raise Violation("an entry was evicted although a less recently used one survived: %s" % limits, signature=["not-lru"])
        if E:
            newest = max(e["atime"] for e in E)
            if not any(breaks(S + [e]) for e in E if e["atime"] == newest):
                raise Violation("more entries evicted than necessary (putting back one most recently used evicted entry breaks no limit): %s"
                                % limits, signature=["not-minimal"])
        # (4) survivors served from cache; evicted recompute
        for e in entries:
            f = funcs[e["fi"]]
            name = "blob" if e["fi"] == 0 else "blob2"
            want = plain[e["fi"]](e["n"], e["tag"])
            cnt = tasks.EXEC_COUNT[name]
            if e["zero"]:
                # an emptied entry is not loadable whether it survived or not: only the value is judged (C14)
                if f(e["n"], e["tag"]) != want:
                    raise Violation("emptied entry returns a wrong value after reduce_size: %s" % limits, signature=["wrong-value"])
                continue
            if e in S:
                if f.check_call_in_cache(e["n"], e["tag"]) is not True:
                    raise Violation("surviving entry is not reported in cache: %s" % limits, signature=["survivor-lost"])
            got = f(e["n"], e["tag"])
            if got != want:
                raise Violation("entry returns a wrong value after reduce_size: %s" % limits, signature=["wrong-value"])
            ran = tasks.EXEC_COUNT[name] - cnt
            if e in S and ran:
                raise Violation("surviving entry was recomputed: %s" % limits, signature=["survivor-lost"])
            if e in E and ran != 1:
                raise Violation("evicted entry was not recomputed exactly once (%d): %s" % (ran, limits), signature=["evicted-not-recomputed"])
        sizes = set(e["size"] for e in entries)
        nontrivial = len(entries) >= 3 and len(sizes) >= 2 and 0 < len(E) < len(entries)
        classes = ["evicted=%s" % ("none" if not E else "all" if not S else "some")]
        for nm, v in (("bytes", bytes_limit), ("items", items_limit), ("age", age_limit)):
            if v is not None:
                classes.append("limit:" + nm)
        if len(set(e["slot"] for e in entries)) < len(entries):
            classes.append("atime-ties")
        if any(e["zero"] for e in entries):
            classes.append("zero-size-entry")
        return {"nontrivial": nontrivial, "classes": classes}
    finally:
        shutil.rmtree(loc, ignore_errors=True)


def _run_memstr(spec):
    from joblib.disk import memstr_to_bytes

    text = spec["text"]
    try:
        want = _parse_mem(text)
    except Exception:
        want = None
    try:
        got = memstr_to_bytes(text)
    except Exception as e:
        if want is not None:
            raise Violation("memstr_to_bytes(%r) raised %s for a valid size string" % (text, type(e).__name__), signature=["memstr"])
        got = None
    if want is None:
        if got is not None:
            raise Violation("memstr_to_bytes(%r) = %r for an invalid size string" % (text, got), signature=["memstr"])
        return {"nontrivial": False, "classes": ["memstr-rejected"]}
    if got is None or abs(got - want) > 1:   # float arithmetic may differ by one byte from the exact value
        raise Violation("memstr_to_bytes(%r) = %r, exact value %r" % (text, got, want), signature=["memstr"])
    return {"nontrivial": False, "classes": ["memstr-ok"]}


def _memstrs():
    good = st.tuples(st.one_of(st.integers(0, 5000).map(str), st.sampled_from(["0.5", "1.5", "2.25", "10.0", "0.001"])),
                     st.sampled_from(["K", "M", "G"])).map(lambda t: {"mode": "memstr", "text": t[0] + t[1]})
    bad = st.sampled_from(["", "K", "10", "10T", "abcK", "1 0K", "10k"]).map(lambda t: {"mode": "memstr", "text": t})
    return st.one_of(good, good, bad)


def shard(ctx):
    ctx.hyp_run(strategy(), max_examples=ctx.pick(150, 2500), label="store")
    ctx.hyp_run(_memstrs(), max_examples=ctx.pick(100, 1000), label="memstr")
