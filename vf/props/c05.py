"""C05 - killing the process at any instant never corrupts the Memory cache."""

import importlib
import json
import os
import re
import shutil
import signal
import sys
import time
import warnings

from hypothesis import strategies as st

from ..core import HarnessError, Inconclusive, Violation
from ..engines import fsgate

PROPERTY_ID = "C05"
LEVEL = "fault_enumeration"
RULE = (
    "Hypothesis draws workloads: 1-5 operations over two cached functions (one of them with three source versions) with "
    "outputs of 10 B..300 KB and compress in {False, True, 9}: cached call (cold/warm), define another source version then "
    "call (wipe + rewrite of func_code.py), call through expires_after(seconds=0) (callback-driven invalidation), "
    "call_and_shelve, reduce_size, Memory.clear, f.clear.  A reference run under the LD_PRELOAD interposer lists the N "
    "file-system mutations (create/truncate-open, every write, rename, mkdir, unlink, rmdir) the workload issues under the "
    "cache directory.  Then EVERY k in 1..N is a crash point (the process SIGKILLs itself before mutation k) and every write "
    "is additionally torn: all cut lengths for writes <= 128 B to a file opened under its final name (func_code.py, "
    ".gitignore), cuts {1, len/2, len-1, 8192*i+-1} otherwise.  After each crash a fresh process (forked from a parent that "
    "never touched the cache) checks: every output.pkl under its final name loads completely and is a value the workload "
    "computes; for every argument of the workload and two unseen ones the plain cached call, the call through "
    "expires_after(days=1), check_call_in_cache and call_and_shelve().get() return the value of the LATEST source version "
    "without raising (the recovery is repeated on three copies of the crashed directory so that each access path meets the crashed state first); a second round is consistent; reduce_size and clear still work.  evaluations = crash points executed; "
    "non-trivial: a crash strictly inside the workload (not before the first / after the last mutation) whose event prefix "
    "matched the reference; distinct = (workload hash, k, tear)."
)
ASSUMPTIONS = [
    "process death only: data written before the kill is in the page cache and survives (no power-loss model)",
    "the mutation sequence of a workload is deterministic up to pid/thread ids in temporary file names; diverging runs are discarded and counted",
    "crash points are enumerated exhaustively per workload; workloads are sampled",
]
NEEDS = {"fsgate"}
SCRATCH_BASE = "disk"     # directory order matters for rmtree crash states: use the disk-backed file system
SHARDS = {"quick": 12, "thorough": 16}
TIMEOUT = {"quick": 900, "thorough": 5400}
MAX_ROUNDS = 4
MODNAME = "vf_c05_mod"


def strategy():
    size = st.sampled_from([10, 100, 1000, 9000, 70000, 300000]) | st.integers(0, 3000)
    arg = st.tuples(size, st.sampled_from(["a", "b"])).map(list)
    op = st.one_of(
        st.tuples(st.just("call"), st.integers(0, 1), arg).map(list),
        st.tuples(st.just("call"), st.integers(0, 1), arg).map(list),
        st.tuples(st.just("call"), st.integers(0, 1), arg).map(list),
        st.tuples(st.just("def"), st.integers(1, 3)).map(list),
        st.tuples(st.just("call_expire"), st.integers(0, 1), arg).map(list),
        st.tuples(st.just("shelve"), st.integers(0, 1), arg).map(list),
        st.tuples(st.just("reduce"), st.integers(0, 2)).map(list),
        st.just(["clear"]),
        st.tuples(st.just("fclear"), st.integers(0, 1)).map(list),
    )
    return st.fixed_dictionaries({
        "compress": st.sampled_from([False, False, True, 9]),
        "ops": st.lists(op, min_size=1, max_size=5),
        # a small bank of arguments so that warm calls, invalidations and source changes meet existing entries
    }).map(_canon_args)


def _canon_args(spec):
    bank = []
    for op in spec["ops"]:
        if op[0] in ("call", "call_expire", "shelve"):
            if bank and (op[2][0] % 3 == 0):
                op[2] = list(bank[op[2][0] % len(bank)])
            else:
                bank.append(list(op[2]))
    return spec


def signature(spec):
    return None


# ---- workload module ---------------------------------------------------------------------

def _source(version):
    return ("from vf.engines.values import gen_bytes\n\n\n"
            # non-ASCII source: func_code.py is written in place, a torn write can end inside a multi-byte character
            "def wf0(n, tag):\n    # caf\u00e9 \u20ac\n    return ('wf0', %d, n, tag, gen_bytes(n, 'pattern', %d))\n\n\n"
            "def wf1(n, tag):\n    return ('wf1', 1, n, tag, gen_bytes(n, 'rand', 7))\n" % (version, version))


def _expected(fi, version, n, tag):
    from ..engines.values import gen_bytes
    if fi == 0:
        return ("wf0", version, n, tag, gen_bytes(n, "pattern", version))
    return ("wf1", 1, n, tag, gen_bytes(n, "rand", 7))


def _load_module(moddir, version):
    path = os.path.join(moddir, MODNAME + ".py")
    with open(path, "w", encoding="utf-8") as f:
        f.write(_source(version))
    shutil.rmtree(os.path.join(moddir, "__pycache__"), ignore_errors=True)
    if moddir not in sys.path:
        sys.path.insert(0, moddir)
    sys.modules.pop(MODNAME, None)
    importlib.invalidate_caches()
    return importlib.import_module(MODNAME)


def _load_module_noreload(moddir):
    if moddir not in sys.path:
        sys.path.insert(0, moddir)
    importlib.invalidate_caches()
    return importlib.import_module(MODNAME)


def _workload(spec, location, moddir):
    """Runs in a forked child (armed)."""
    import joblib
    from joblib import expires_after

    mem = joblib.Memory(location, compress=spec["compress"], verbose=0)
    version = 1
    mod = _load_module(moddir, version)
    wrapped = {}

    def w(fi, expire=False):
        key = (fi, version if fi == 0 else 1, expire)
        if key not in wrapped:
            func = mod.wf0 if fi == 0 else mod.wf1
            wrapped[key] = mem.cache(func, cache_validation_callback=expires_after(seconds=0) if expire else None)
        return wrapped[key]
    for op in spec["ops"]:
        k = op[0]
        if k == "def":
            version = op[1]
            mod = _load_module(moddir, version)
        elif k == "call":
            w(op[1])(*op[2])
        elif k == "call_expire":
            w(op[1], True)(*op[2])
        elif k == "shelve":
            w(op[1]).call_and_shelve(*op[2]).get()
        elif k == "reduce":
            mem.reduce_size(items_limit=op[1])
        elif k == "clear":
            mem.clear(warn=False)
        elif k == "fclear":
            w(op[1]).clear(warn=False)


def _final_version(spec):
    v = 1
    for op in spec["ops"]:
        if op[0] == "def":
            v = op[1]
    return v


def _child(fn, *args):
    """Fork, run fn in the child, return (exit status, signal)."""
    sys.stdout.flush()
    sys.stderr.flush()
    pid = os.fork()
    if pid == 0:
        rc = 0
        try:
            fn(*args)
        except BaseException:
            import traceback
            traceback.print_exc()
            rc = 3
        finally:
            os._exit(rc)
    _, status = os.waitpid(pid, 0)
    return (os.WEXITSTATUS(status) if os.WIFEXITED(status) else None, os.WTERMSIG(status) if os.WIFSIGNALED(status) else None)


_TMP = re.compile(r"\.thread-\d+-pid-\d+")


def _norm(line, location):
    k, kind, ln, path = line.split(" ", 3)
    return (kind, ln, _TMP.sub(".TMP", path.replace(location, "$C")))


def _run_armed(spec, location, moddir, mode, logpath, kill_at=-1, tear=0):
    def body():
        fd = os.open(logpath, os.O_WRONLY | os.O_CREAT | os.O_TRUNC, 0o644)
        fsgate.arm(location, mode, kill_at=kill_at, tear=tear, logfd=fd)
        _workload(spec, location, moddir)
        fsgate.disarm()
    return _child(body)


def _recover(spec, location, moddir, outpath, rot=0):
    """Fresh process: check the cache is usable; writes a JSON verdict.  `rot` selects which access path
    meets the crashed state first (the first access repairs it for the others)."""
    def body():
        warnings.simplefilter("ignore")
        import logging
        logging.disable(logging.CRITICAL)
        import datetime

        import joblib
        from joblib import expires_after

        verdict = {"ok": True}
        try:
            version = _final_version(spec)
            mod = _load_module(moddir, version)
            versions = sorted(set([1] + [op[1] for op in spec["ops"] if op[0] == "def"]))
            args = []
            for op in spec["ops"]:
                if op[0] in ("call", "call_expire", "shelve") and [op[1], op[2]] not in args:
                    args.append([op[1], op[2]])
            args += [[0, [17, "unseen"]], [1, [23, "unseen"]]]
            # (1) every output.pkl under its final name is complete
            for root, _, files in os.walk(location):
                if "output.pkl" in files:
                    p = os.path.join(root, "output.pkl")
                    try:
                        val = joblib.load(p)
                    except Exception as e:
                        verdict = {"ok": False, "sig": ["partial-output"], "msg": "%s is visible under its final name but does not load: %s: %s"
                                   % (os.path.relpath(p, location), type(e).__name__, e)}
                        raise StopIteration
                    good = isinstance(val, tuple) and len(val) == 5 and any(
                        val == _expected(0 if val[0] == "wf0" else 1, v, val[2], val[3]) for v in versions)
                    if not good:
                        verdict = {"ok": False, "sig": ["garbled-output"], "msg": "%s holds a value the workload never computes: %r"
                                   % (os.path.relpath(p, location), val[:4] if isinstance(val, tuple) else val)}
                        raise StopIteration
            mem = joblib.Memory(location, compress=spec["compress"], verbose=0)
            for rnd in (1, 2):
                for fi, a in args:
                    func = mod.wf0 if fi == 0 else mod.wf1
                    want = _expected(fi, version, a[0], a[1])
                    ways = [
                        ("cached call", lambda f=func: mem.cache(f)(*a)),
                        ("call through expires_after(days=1)", lambda f=func: mem.cache(f, cache_validation_callback=expires_after(days=1))(*a)),
                        ("call_and_shelve().get()", lambda f=func: mem.cache(f).call_and_shelve(*a).get()),
                    ]
                    ways = ways[rot:] + ways[:rot]
                    for name, fn in ways:
                        try:
                            got = fn()
                        except Exception as e:
                            import traceback
                            tb = traceback.extract_tb(e.__traceback__)
                            where = ["%s:%d %s" % (os.path.basename(fr.filename), fr.lineno, fr.name) for fr in tb if "/repo/joblib" in fr.filename][-2:]
                            verdict = {"ok": False, "sig": ["raises", type(e).__name__], "msg": "%s of wf%d%r raised %s: %s (round %d, at %s)"
                                       % (name, fi, tuple(a), type(e).__name__, str(e)[:150], rnd, where)}
                            raise StopIteration
                        if got != want:
                            verdict = {"ok": False, "sig": ["wrong-value"], "msg": "%s of wf%d%r returned %r, the live source (version %d) computes %r (round %d)"
                                       % (name, fi, tuple(a), got[:4] if isinstance(got, tuple) else got, version, want[:4], rnd)}
                            raise StopIteration
                    try:
                        c = mem.cache(func).check_call_in_cache(*a)
                    except Exception as e:
                        verdict = {"ok": False, "sig": ["raises", type(e).__name__], "msg": "check_call_in_cache raised %s: %s" % (type(e).__name__, e)}
                        raise StopIteration
                    if c is not True:
                        verdict = {"ok": False, "sig": ["inconsistent"], "msg": "check_call_in_cache is %r right after the call was served (round %d)" % (c, rnd)}
                        raise StopIteration
            try:
                mem.reduce_size(items_limit=0)
                mem.clear(warn=False)
            except Exception as e:
                verdict = {"ok": False, "sig": ["raises", type(e).__name__], "msg": "reduce_size/clear after recovery raised %s: %s" % (type(e).__name__, e)}
        except StopIteration:
            pass
        with open(outpath, "w") as f:
            json.dump(verdict, f)
    rc, sig = _child(body)
    if rc != 0 or not os.path.exists(outpath):
        raise HarnessError("recovery child failed rc=%r sig=%r" % (rc, sig))
    with open(outpath) as f:
        return json.load(f)


def _tears(kind, ln, path):
    ln = int(ln)
    if kind != "write" or ln <= 1:
        return []
    final_name = not _TMP.search(path) and ".TMP" not in path
    if final_name and ln <= 128:
        return list(range(1, ln))
    cuts = {1, ln // 2, ln - 1}
    i = 1
    while 8192 * i < ln:
        cuts.update((8192 * i - 1, 8192 * i + 1))
        i += 1
    return sorted(c for c in cuts if 0 < c < ln)


def run_case(spec):
    if not fsgate.preloaded():
        raise HarnessError("fsgate.so not preloaded")
    scratch = os.environ.get("VF_SCRATCH", "/var/tmp")
    top = os.path.join(scratch, "c05-%d" % os.getpid())
    shutil.rmtree(top, ignore_errors=True)
    os.makedirs(top)
    location = os.path.join(top, "cache")
    moddir = os.path.join(top, "mod")
    os.makedirs(moddir)
    logpath = os.path.join(top, "events.log")
    outpath = os.path.join(top, "verdict.json")
    only = spec.get("only")
    stats = {"points": 0, "discarded": 0, "nontrivial": 0}
    try:
        rc, sig = _run_armed(spec, location, moddir, fsgate.LOG, logpath)
        if rc != 0:
            raise Inconclusive("reference run failed rc=%r sig=%r" % (rc, sig))
        with open(logpath) as f:
            ref = [_norm(ln, location) for ln in f.read().splitlines()]
        N = len(ref)
        points = []
        for k in range(1, N + 1):
            points.append((k, 0))
            for t in _tears(*ref[k - 1]):
                points.append((k, t))
        if only:
            points = [tuple(only)]
        for k, tear in points:
            shutil.rmtree(location, ignore_errors=True)
            if os.path.exists(outpath):
                os.unlink(outpath)
            rc, sig = _run_armed(spec, location, moddir, fsgate.CRASH, logpath, kill_at=k, tear=tear)
            if sig != signal.SIGKILL:
                stats["discarded"] += 1
                continue
            with open(logpath) as f:
                got = [_norm(ln, location) for ln in f.read().splitlines()]
            if got[:k] != ref[:k] and got[:k - 1] != ref[:k - 1]:
                stats["discarded"] += 1
                continue
            stats["points"] += 1
            crashed = os.path.join(top, "crashed")
            shutil.rmtree(crashed, ignore_errors=True)
            if os.path.isdir(location):
                os.rename(location, crashed)
            for rot in (0, 1, 2):
                shutil.rmtree(location, ignore_errors=True)
                if os.path.isdir(crashed):
                    shutil.copytree(crashed, location)
                if os.path.exists(outpath):
                    os.unlink(outpath)
                v = _recover(spec, location, moddir, outpath, rot)
                if not v["ok"]:
                    v["msg"] += " [first access path after the crash: %s]" % ["plain call", "expires_after call", "call_and_shelve"][rot]
                    break
            if not v["ok"]:
                spec["only"] = [k, tear]
                ev = ref[k - 1]
                before = ref[k - 2] if k >= 2 else None
                raise Violation(
                    "after SIGKILL %s mutation %d/%d (%s %s%s; previous mutation: %s) of workload %s (compress=%r): %s"
                    % ("inside (torn after %d bytes)" % tear if tear else "before", k, N, ev[0], ev[2], " len=%s" % ev[1] if ev[0] == "write" else "",
                       "%s %s" % (before[0], before[2]) if before else "-", json.dumps(spec["ops"]), spec["compress"], v["msg"]),
                    signature=v["sig"] + [_where(ev, before, tear)])
            if 1 < k <= N:
                stats["nontrivial"] += 1
        _STATS["n_crash_points"] = _STATS.get("n_crash_points", 0) + stats["points"]
        _STATS["n_discarded_runs"] = _STATS.get("n_discarded_runs", 0) + stats["discarded"]
        _STATS["n_mutations_in_reference_runs"] = _STATS.get("n_mutations_in_reference_runs", 0) + N
    finally:
        shutil.rmtree(top, ignore_errors=True)
    classes = ["op=" + op[0] for op in spec["ops"]] + ["compress=%r" % spec["compress"]]
    return {"nontrivial": stats["nontrivial"] > 0 and not only, "classes": sorted(set(classes))}


def _where(ev, before, tear):
    """Root-cause class of a crash point: which kind of file was being mutated."""
    def kindof(e):
        if e is None:
            return "-"
        p = e[2]
        base = os.path.basename(p)
        for name in ("func_code.py", "metadata.json", "output.pkl", ".gitignore"):
            if base.startswith(name):
                return e[0] + ":" + name + (".tmp" if ".TMP" in base else "")
        return e[0] + ":" + ("entry-dir" if re.search(r"[0-9a-f]{32}$", p) else "dir")
    return "%s after %s%s" % (kindof(ev), kindof(before), " torn" if tear else "")


_STATS = {}


def shard(ctx):
    warnings.simplefilter("ignore")
    ctx.hyp_run(strategy(), max_examples=ctx.pick(2, 40), shrink=True)
    ctx.stats.extra.update(_STATS)
    ctx.stats.extra["exhaustive"] = False
