"""C16 - generator outputs: prompt, in the promised order, safe to abandon."""

import json

from hypothesis import strategies as st

from ..core import Inconclusive, Violation
from ..engines import sched_strat as SS
from . import c01

PROPERTY_ID = "C16"
LEVEL = "exploration"
RULE = (
    "E1 (controlled backend) with return_as in {generator, generator_unordered}: configurations as in C01; 1-2 generator "
    "calls followed by a further call on the same object; the drawn schedule interleaves batch completions (any order, "
    "synchronous ones, gates) with consumer actions executed in the caller thread: next, close, drop (del + gc.collect), "
    "a second call while the run is unfinished, exhaust.  Oracle: ordered mode - whenever the next result and all earlier "
    "ones are complete, next() returns it with no further completion issued (12 s watchdog; confirmed by then completing "
    "more batches), values arrive in submission order; unordered mode - batches are delivered in completion order, every "
    "result exactly once; close/drop returns, no batch is submitted afterwards, and the next call returns exactly its own "
    "results; a call during an unfinished run raises RuntimeError and the first generator keeps yielding only its own "
    "results.  Non-trivial: a next() issued while a later-submitted batch is complete and an earlier one is not, or a "
    "close/drop/overlapping call with batches in flight.  distinct = (config, consumer actions, abstract schedule)."
)
ASSUMPTIONS = [
    "each Parallel object has its own backend instance (sharing one loky executor between two generators is outside the statement)",
    "unordered delivery order is judged only when completions were strictly sequential (no concurrent probe completions)",
    "the generator is dropped in the thread that created it (the foreign-thread GC path of PyPy is not generated)",
]
SHARDS = {"quick": 8, "thorough": 16}


@st.composite
def scenarios(draw):
    spec = draw(SS.configs(return_as=("generator", "generator_unordered")))
    calls = []
    n_gen_calls = draw(st.integers(1, 2))
    for ci in range(n_gen_calls + 1):
        n = draw(SS.n_tasks(spec))
        call = {"n": n, "sync": draw(st.lists(st.integers(0, 12), max_size=3, unique=True)),
                "gates": draw(SS.gates(max_gates=2)), "fail": {}, "iter_fail": None, "never": []}
        if ci < n_gen_calls:
            ops = [st.tuples(st.just("c"), st.integers(0, 7)).map(list)] * 5 + [st.just(["next"])] * 4 + [
                st.just(["close"]), st.just(["drop"]), st.just(["recall"]), st.just(["exhaust"])]
            call["steps"] = draw(st.lists(st.one_of(ops), max_size=40))
        else:
            call["steps"] = draw(st.lists(st.tuples(st.just("c"), st.integers(0, 7)).map(list), max_size=10))
            call["gates"] = []
        if ci > 0:
            call["late_before"] = draw(st.lists(st.integers(0, 5), max_size=4))
        calls.append(call)
    spec["calls"] = calls
    spec["mode"] = "sched"
    return spec


def strategy():
    return scenarios()


def signature(spec):
    return None


def run_case(spec):
    if spec.get("mode") == "real":
        from ..engines import realpar
        return realpar.run_c16(spec)
    from ..engines import sched
    from ..engines.sched import Engine

    report = sched.run(spec)
    harness = [p for p in report["problems"] if p.startswith("harness")]
    if harness:
        raise Inconclusive("; ".join(harness))
    ordered = spec["return_as"] == "generator"
    nontrivial = False
    classes = ["return_as=" + spec["return_as"]]
    feats = []
    for rec, call in zip(report["calls"], spec["calls"]):
        k, n, base = rec["k"], rec["n"], rec["base"]
        where = "call %d (n=%d n_jobs=%d batch_size=%r pre_dispatch=%r return_as=%s input=%s managed=%s)" % (
            k, n, spec["n_jobs"], spec["batch_size"], spec["pre_dispatch"], spec["return_as"], spec["input"], spec["managed"])
        evs = SS.call_events(report, k)
        if rec.get("prompt_violation"):
            pv = rec["prompt_violation"]
            if pv.get("returned_after_more_completions"):
                raise Violation("%s: next() #%d did not return although its result and all earlier ones were complete; it returned "
                                "only after %d further batch(es) were completed" % (where, pv["results_before"], pv["forced"]),
                                signature=["not-prompt"])
            raise Violation("%s: next() #%d never returned although its result was complete" % (where, pv["results_before"]),
                            signature=["next-hangs"])
        if rec["outcome"] == "hang":
            raise Violation("%s: consumer action never returned: %s; frames=%s" % (where, report["hang"]["waiting_for"],
                                                                                 json.dumps(report["hang"]["frames"])[:1200]),
                            signature=["hang"])
        if rec["outcome"] == "raised":
            raise Violation("%s raised %r when called (previous run was finished/closed)" % (where, rec["exception"]),
                            signature=["call-raises"])
        expected = [Engine.expected_value(base + i, i) for i in range(n)]
        got = list(rec["results"] or [])
        exhausted = any(c.get("op") == "exhaust" and "exception" not in c for c in rec["consumer"]) or \
            any(c.get("stop") for c in rec["consumer"])
        errs = [c for c in rec["consumer"] if c.get("exception")]
        if errs:
            raise Violation("%s: consumer action %s raised %r" % (where, errs[0]["op"], errs[0]["exception"]), signature=["consumer-raises"])
        f = SS.schedule_features(report, k)
        jobs = SS.jobs_of(report, k)
        if ordered:
            if got != expected[:len(got)]:
                raise Violation("%s: generator yielded %r, submission order gives %r" % (where, got[:30], expected[:len(got)][:30]),
                                signature=["order"])
        else:
            if len(set(map(repr, got))) != len(got) or not set(map(repr, got)) <= set(map(repr, expected)):
                raise Violation("%s: unordered generator yielded a result twice or a foreign one: %r" % (where, got[:30]),
                                signature=["exactly-once"])
            # results become available when the completion callback registers them: judge the order only when the
            # callbacks of this call ran strictly one after the other (no overlap, nothing held at a gate in between)
            cbs = {}
            for e in evs:
                if e["kind"] in ("cb_enter", "cb_return") and "jid" in e:
                    cbs.setdefault(e["jid"], {})[e["kind"]] = e["seq"]
            spans = sorted((v["cb_enter"], v.get("cb_return", 10 ** 9), jid) for jid, v in cbs.items() if "cb_enter" in v)
            sequential = all(a[1] < b[0] for a, b in zip(spans, spans[1:])) and not any(e["kind"] in ("gate_hit", "gate_parked") for e in evs)
            if sequential:
                by_jid = {j["jid"]: j for j in jobs}
                want = [Engine.expected_value(i, i - base) for _, _, jid in spans if jid in by_jid for i in by_jid[jid]["indices"]]
                if got != want[:len(got)]:
                    raise Violation("%s: unordered generator yielded %r, completion order gives %r" % (where, got[:30], want[:len(got)][:30]),
                                    signature=["completion-order"])
        if exhausted and sorted(map(repr, got)) != sorted(map(repr, expected)):
            raise Violation("%s: exhausted generator delivered %d results, expected %d: %r" % (where, len(got), n, got[:30]),
                            signature=["exactly-once"])
        # close / drop: no submit afterwards
        if rec.get("closed_seq") is not None:
            late_submits = [e for e in evs if e["kind"] == "submit" and e["seq"] > rec["closed_seq"]]
            if late_submits:
                raise Violation("%s: batch %r submitted after close()/drop returned" % (where, late_submits[0]["indices"]),
                                signature=["dispatch-after-close"])
            start = next((e for e in evs if e["kind"] == "consumer_start" and e.get("op") in ("close", "drop")), None)
            if start is not None and start["inflight"] > 0:
                nontrivial = True
                classes.append("abandon-with-batches-in-flight")
        # overlapping call
        for c in rec["consumer"]:
            if c["op"] == "recall":
                if c.get("raised") is None:
                    raise Violation("%s: a second call during the unfinished run returned %r instead of raising RuntimeError"
                                    % (where, c.get("returned")), signature=["recall-accepted"])
                if c["raised"]["type"] != "RuntimeError":
                    raise Violation("%s: a second call during the unfinished run raised %r, expected RuntimeError" % (where, c["raised"]),
                                    signature=["recall-wrong-exception"])
                classes.append("overlapping-call")
                nontrivial = True
        foreign = [i for e in evs if e["kind"] == "submit" for i in e["indices"] if not (base <= i < base + 900)]
        if foreign:
            raise Violation("%s submitted tasks %r of another run" % (where, foreign[:10]), signature=["mixed-runs"])
        # promptness non-triviality: a next() started while a later batch was complete and an earlier one not
        for e in evs:
            if e["kind"] == "consumer_start" and e.get("op") == "next":
                done_ord = [j["ordinal"] for j in jobs if j["completed_seq"] is not None]
                # approximate with the final completion order: was some completion out of order before this point?
                if f["out_of_order"]:
                    nontrivial = True
                    classes.append("next-with-out-of-order-completions")
                    break
        feats.append([n, [s[0] for s in call["steps"] if s[0] != "c"], f["order"], f["sync"], f["gates"], f["probes"]])
    others = [p for p in report["problems"] if p.startswith("callback raised")]
    if others:
        raise Violation("joblib's completion callback raised into the backend: %s" % others[0], signature=["callback-raises"])
    key = [spec["n_jobs"], spec["batch_size"], spec.get("auto_sizes"), spec["pre_dispatch"], spec["return_as"], spec["input"],
           spec["managed"], feats]
    return {"nontrivial": nontrivial, "classes": sorted(set(classes)), "key": key}


def shard(ctx):
    ctx.hyp_run(strategy(), max_examples=ctx.pick(200, 3000), label="sched")
    from ..engines import realpar
    if hasattr(realpar, "c16_strategy"):
        ctx.hyp_run(realpar.c16_strategy(ctx), max_examples=ctx.pick(10, 200), label="real", shrink=False)
        ctx.hyp_run(realpar.c16_stress_strategy(ctx), max_examples=ctx.pick(4, 40), label="stress", shrink=False)
