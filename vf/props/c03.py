"""C03 - dump/load round trip for every object / compressor / protocol / target."""

import io
import json
import os
import shutil

from hypothesis import strategies as st

from ..core import Violation
from ..engines import persist as PS
from ..engines import values as V

PROPERTY_ID = "C03"
LEVEL = "exploration"
RULE = (
    "Hypothesis draws an object spec from the recursive typed universe (scalars, str/bytes payloads sized around 8 KiB / "
    "64 KiB / 1 MiB, tuple/list/dict/set/frozenset, two harness classes, shared and cyclic references among mutable "
    "containers), a compress argument (0/False/True/1..9/name/(name, level|None)), protocol None|0..5, target (path with no, "
    "neutral, matching or mismatching compressor extension | open file object | BytesIO) and, for paths, a new name to which "
    "the file is renamed before loading.  Oracle: load() is deep-equal (type-exact, NaN-aware, alias-graph isomorphic) to the "
    "original; dump to a path returns [path]; compressed output starts with the promised compressor's magic and the stdlib "
    "decoder expands it to the bytes of an uncompressed dump of the same object with the same protocol.  Non-trivial: the "
    "object has a container AND (payload >= 8192 B or a shared/cyclic reference or explicit protocol or an "
    "extension-implied/mismatched compressor).  distinct = hash of the case."
)
ASSUMPTIONS = [
    "deep equality is judged by the harness' own comparison, not by joblib",
    "lz4 is not installed; it is only checked to be rejected with ValueError",
    "numpy is absent in this check (C19 covers arrays)",
]
SHARDS = {"quick": 8, "thorough": 16}


def strategy():
    return st.fixed_dictionaries({
        "obj": st.one_of(
            PS.objects(),
            st.tuples(PS.objects(max_leaves=6), V.big_payloads(), st.sampled_from(["list", "tuple", "dictval", "attr"])).map(_wrap_big),
        ),
        "compress": PS.compress_args(),
        "protocol": st.sampled_from([None, None, 0, 1, 2, 3, 4, 5]),
        "target": PS.targets(),
        "rename": st.sampled_from([None, "", ".pkl", ".z", ".gz", ".bz2", ".xz", ".lzma"]),
    })


def _wrap_big(t):
    obj, big, how = t
    if how == "list":
        return ["list", [obj, big, ["ref", 0]]]
    if how == "tuple":
        return ["tuple", [big, obj]]
    if how == "dictval":
        return ["dict", [[["str", "k"], big], [["int", "1"], obj]]]
    return ["obj", "P", [["u", big], ["v", obj]]]


def run_case(spec):
    import joblib

    scratch = os.environ.get("VF_SCRATCH", "/tmp")
    obj = V.build(spec["obj"])
    c, proto, target = spec["compress"], spec["protocol"], spec["target"]
    paths = []
    try:
        try:
            kind, handle, ret = PS.do_dump(joblib, obj, c, proto, target, scratch, "a")
        except Exception as e:
            raise Violation("dump raised %s: %s (compress=%r protocol=%r target=%r)" % (type(e).__name__, e, PS.compress_value(c), proto, target))
        if kind != "bytesio":
            paths.append(handle)
        if kind == "path" and ret != [handle]:
            raise Violation("dump to a path returned %r, expected [%r]" % (ret, handle))
        data = PS.raw_bytes(kind, handle)
        method, judged = PS.expected_method(c, target)
        # reference: uncompressed dump of the same object with the same protocol
        ref = io.BytesIO()
        joblib.dump(obj, ref, compress=0, protocol=proto)
        if judged:
            if method is None:
                if data != ref.getvalue():
                    raise Violation("uncompressed dump bytes differ between target %r and a BytesIO dump" % (target,))
            else:
                if not data.startswith(PS.MAGIC[method]):
                    raise Violation("compress=%r target=%r: output starts with %r, expected %s magic %r"
                                    % (PS.compress_value(c), target, data[:6], method, PS.MAGIC[method]))
                try:
                    expanded = PS.DECODERS[method](data)
                except Exception as e:
                    raise Violation("stdlib %s decoder rejects the dump: %s: %s" % (method, type(e).__name__, e))
                if expanded != ref.getvalue():
                    raise Violation("stdlib %s decoder expands the dump to %d bytes that differ from the uncompressed dump (%d bytes)"
                                    % (method, len(expanded), len(ref.getvalue())))
        # load (after an optional rename: content sniffing must not depend on the name)
        renamed = False
        if kind == "path" and spec["rename"] is not None:
            new = os.path.join(scratch, "p03-%d-renamed%s" % (os.getpid(), spec["rename"]))
            os.replace(handle, new)
            paths.append(new)
            handle = new
            renamed = True
        loads = []
        try:
            if kind == "bytesio":
                handle.seek(0)
                loads.append(("BytesIO", joblib.load(handle)))
                loads.append(("BytesIO(copy)", joblib.load(io.BytesIO(data))))
            else:
                loads.append(("path", joblib.load(handle)))
                with open(handle, "rb") as f:
                    loads.append(("fileobj", joblib.load(f)))
        except Exception as e:
            raise Violation("load raised %s: %s (compress=%r protocol=%r target=%r rename=%r)"
                            % (type(e).__name__, e, PS.compress_value(c), proto, target, spec["rename"]))
        for how, back in loads:
            why = V.deep_eq(obj, back)
            if why:
                raise Violation("round trip via %s differs: %s (compress=%r protocol=%r target=%r rename=%r obj=%s)"
                                % (how, why, PS.compress_value(c), proto, target, spec["rename"], json.dumps(spec["obj"])[:300]))
    finally:
        for p in paths:
            try:
                os.unlink(p)
            except OSError:
                pass
    ns = list(V.nodes(spec["obj"]))
    has_container = any(n[0] in ("tuple", "list", "dict", "set", "frozenset", "obj") for _, n in ns)
    big = any(n[0] in ("bytesgen", "strgen") and n[1] >= 8192 for _, n in ns)
    refs = any(n[0] == "ref" for _, n in ns)
    implied = target[0] == "path" and target[1] in PS.EXT.values()
    classes = ["target=" + target[0], "method=%s" % method]
    if big:
        classes.append("payload>=8192")
    if refs:
        classes.append("has-ref")
    if renamed:
        classes.append("renamed")
    if proto is not None:
        classes.append("explicit-protocol")
    nontrivial = has_container and (big or refs or proto is not None or implied)
    return {"nontrivial": nontrivial, "classes": classes}


def _lz4_rejected():
    import joblib

    try:
        joblib.dump([1], io.BytesIO(), compress="lz4")
    except ValueError:
        return
    except Exception as e:
        raise Violation("compress='lz4' without lz4 installed raised %s instead of ValueError" % type(e).__name__)
    try:
        import lz4  # noqa
    except ImportError:
        raise Violation("compress='lz4' accepted although lz4 is not installed")


def shard(ctx):
    if ctx.shard == 0:
        ctx.run_one({"lz4": True}, case_fn=lambda s: (_lz4_rejected(), {"nontrivial": False})[1])
    ctx.hyp_run(strategy(), max_examples=ctx.pick(300, 4000))
