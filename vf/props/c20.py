"""C20 - tracked temporary resources are deleted exactly when their last user is gone."""

import json
import os
import shutil
import subprocess
import sys
import time

from hypothesis import strategies as st

from ..core import HarnessError, Inconclusive, Violation

PROPERTY_ID = "C20"
LEVEL = "exploration"
RULE = (
    "Protocol level against a real tracker process (resource_tracker.main(fd) in a fresh interpreter): Hypothesis draws a "
    "history of up to 25 requests from 1-3 clients (each an own copy of the write end of the command pipe) over 4 files, a "
    "folder containing two tracked files and a tracked sub-folder, and an empty folder: REGISTER / MAYBE_UNLINK / UNREGISTER (balanced and "
    "unbalanced), PROBE, malformed whole lines (unknown command, unknown resource type, missing fields, non-ASCII, name "
    "with ':'), a resource type that does not match the path, clients exiting at drawn points, and the client removing a path itself or re-creating a deleted path without registering it; finally the last client "
    "closes.  After every request the harness synchronises through the FIFO pipe (registers and maybe-unlinks a fresh "
    "sentinel file and waits for it to disappear) and compares the set of existing paths with a refcount model: REGISTER +1, "
    "UNREGISTER drops the entry, MAYBE_UNLINK -1 and deletes exactly at 0 (a deleted folder takes its content with it), "
    "anything else changes nothing; the tracker must be alive.  After the last client is gone the tracker must exit and "
    "exactly the paths still registered are deleted.  Non-trivial: a path registered >= 2 times whose count returns to 0, or "
    "a client exiting while paths are registered, or a malformed/unbalanced request followed by further valid ones.  "
    "distinct = hash of the history."
)
ASSUMPTIONS = [
    "a client being killed is, for the tracker, exactly the closing of its pipe end (messages are <= 512 bytes, written atomically)",
    "torn (unterminated) messages are not generated",
    "deleting a tracked folder removes the tracked files inside it; their later requests are tolerated",
]
SHARDS = {"quick": 12, "thorough": 16}
TIMEOUT = {"quick": 900, "thorough": 3600}

PATHS = ["f0", "f1", "f2", "f3", "d0", "d0/g0", "d0/g1", "d0/s", "d1"]
KIND = {"f0": "file", "f1": "file", "f2": "file", "f3": "file", "d0": "folder", "d0/g0": "file", "d0/g1": "file", "d0/s": "folder",
        "d1": "folder"}


def _steps(focus):
    paths = st.sampled_from(focus + focus + focus + PATHS)
    cmds = st.sampled_from(["REGISTER", "REGISTER", "MAYBE_UNLINK", "MAYBE_UNLINK", "MAYBE_UNLINK", "UNREGISTER"])
    req = st.one_of(
        st.tuples(cmds, paths, st.integers(0, 2)).map(lambda t: ["req", t[0], t[1], t[2]]),
        st.tuples(cmds, paths, st.integers(0, 2)).map(lambda t: ["req", t[0], t[1], t[2]]),
        st.tuples(cmds, paths, st.integers(0, 2)).map(lambda t: ["req", t[0], t[1], t[2]]),
        st.tuples(st.sampled_from(["REGISTER", "MAYBE_UNLINK", "UNREGISTER"]), paths, st.integers(0, 2)).map(
            lambda t: ["mistyped", t[0], t[1], t[2]]),
        st.tuples(st.just("probe"), st.integers(0, 2)).map(list),
        st.tuples(st.just("raw"), st.sampled_from(["BOGUS:{f0}:file", "REGISTER:{f0}:socket", "REGISTER", "", ":::", "REGISTER:{f1}",
                                                   "MAYBE_UNLINK:{f2}:", "R\u00e9GISTER:{f0}:file", "REGISTER:{d0}:x:file",
                                                   "UNREGISTER:{nope}:file", "MAYBE_UNLINK:{nope}:folder", "register:{f3}:file"]),
                  st.integers(0, 2)).map(list),
        st.tuples(st.just("exit"), st.integers(0, 2)).map(list),
        # the client removes a path itself / re-creates a path that is gone, without telling the tracker
        st.tuples(st.sampled_from(["remove", "recreate", "recreate"]), paths, st.just(0)).map(list),
    )
    # an episode: k registrations of one path by drawn clients followed by m maybe-unlinks (count returns to zero when m >= k)
    episode = st.tuples(paths, st.integers(1, 3), st.integers(1, 4), st.lists(st.integers(0, 2), min_size=7, max_size=7)).map(
        lambda t: [["req", "REGISTER", t[0], t[3][i]] for i in range(t[1])] + [["req", "MAYBE_UNLINK", t[0], t[3][3 + i]] for i in range(t[2])])
    # the same with the path removed behind the tracker's back before its count returns to zero (the tracker's own
    # cleanup then fails) and re-created, unregistered, afterwards
    vanish = st.tuples(st.sampled_from(["d0", "d0/s", "d1", "d0/s", "f0", "d0/g0"]), st.integers(1, 2), st.integers(1, 3),
                       st.sampled_from(["remove", "remove-parent"]), st.booleans()).map(
        lambda t: [["req", "REGISTER", t[0], 0] for _ in range(t[1])]
        + ([["remove", t[0], 0]] if (t[3] == "remove" or "/" not in t[0]) else [["req", "REGISTER", "d0", 0], ["req", "MAYBE_UNLINK", "d0", 0]])
        + [["req", "MAYBE_UNLINK", t[0], 0] for _ in range(t[2])]
        + ([["recreate", "d0", 0]] if "/" in t[0] else []) + ([["recreate", t[0], 0]] if t[4] else []))
    chunk = st.one_of(req.map(lambda r: [r]), req.map(lambda r: [r]), episode, vanish)
    return st.lists(chunk, min_size=1, max_size=10).map(lambda cs: [r for c in cs for r in c][:25])


def strategy():
    # most requests of a history concentrate on 1-3 paths so that counts go up to 2-3 and come back to 0
    return st.lists(st.sampled_from(PATHS), min_size=1, max_size=3, unique=True).flatmap(
        lambda focus: st.fixed_dictionaries({"n_clients": st.integers(1, 3), "steps": _steps(focus)}))


def signature(spec):
    return None


class _Tracker:
    def __init__(self, top):
        r, w = os.pipe()
        self.w = w
        self.err = open(os.path.join(top, "tracker.err"), "wb")
        code = "import sys; from joblib.externals.loky.backend.resource_tracker import main; main(%d)" % r
        self.p = subprocess.Popen([sys.executable, "-c", code], pass_fds=(r,), stderr=self.err, stdout=self.err,
                                  env=dict(os.environ))
        os.close(r)

    def alive(self):
        return self.p.poll() is None


def _exists(top):
    return set(p for p in PATHS if os.path.lexists(os.path.join(top, p)))


def run_case(spec):
    scratch = os.environ.get("VF_SCRATCH", "/tmp")
    top = os.path.join(scratch, "c20-%d" % os.getpid())
    shutil.rmtree(top, ignore_errors=True)
    os.makedirs(os.path.join(top, "d0", "s"))
    os.makedirs(os.path.join(top, "d1"))
    for p in PATHS:
        if KIND[p] == "file":
            with open(os.path.join(top, p), "w") as f:
                f.write("x")
    trk = _Tracker(top)
    clients = {i: os.dup(trk.w) for i in range(spec["n_clients"])}
    os.close(trk.w)
    sync_fd = None
    counts = {}            # (rtype, relpath) -> refcount
    alive_paths = set(PATHS)
    nontrivial = False
    classes = []
    multi = set()
    odd_seen = False
    sentinel_n = [0]
    full = lambda p: os.path.join(top, p)

    def send(fd, line):
        try:
            os.write(fd, line.encode("utf-8", "surrogateescape") + b"\n")
        except BrokenPipeError:
            time.sleep(0.2)
            raise Violation("the tracker process is gone (rc=%s): writing a request hit a broken pipe; stderr tail: %r; history=%s"
                            % (trk.p.poll(), _err_tail(top), json.dumps(spec["steps"])), signature=["tracker-died"])

    def sync(where):
        """FIFO barrier: everything sent so far has been processed once the sentinel is gone."""
        fd = next(iter(clients.values()))
        sentinel_n[0] += 1
        s = full("sentinel-%d" % sentinel_n[0])
        with open(s, "w"):
            pass
        send(fd, "REGISTER:%s:file" % s)
        send(fd, "MAYBE_UNLINK:%s:file" % s)
        t_end = time.time() + 30
        while os.path.exists(s):
            if not trk.alive():
                raise Violation("the tracker process exited (rc=%s) after %s; stderr tail: %r"
                                % (trk.p.returncode, where, _err_tail(top)), signature=["tracker-died"])
            if time.time() > t_end:
                raise HarnessError("tracker alive but did not answer the sentinel within 30 s after %s" % where)
            time.sleep(0.0005)

    def model_delete(rel):
        if rel not in alive_paths:
            return
        alive_paths.discard(rel)
        if KIND[rel] == "folder":
            for q in list(alive_paths):
                if q.startswith(rel + "/"):
                    alive_paths.discard(q)

    try:
        sync("start-up")
        for si, step in enumerate(spec["steps"]):
            if not clients:
                break
            op = step[0]
            c = step[-1] % spec["n_clients"]
            if c not in clients:
                c = next(iter(clients))
            fd = clients[c]
            where = "step %d %r; history=%s" % (si, step, json.dumps(spec["steps"][:si + 1]))
            if op == "exit":
                if len(clients) == 1:
                    continue
                if any(v > 0 for v in counts.values()):
                    nontrivial = True
                    classes.append("client-exit-with-registrations")
                os.close(clients.pop(c))
            elif op == "remove":
                rel = step[1]
                if rel in alive_paths:
                    if KIND[rel] == "folder":
                        shutil.rmtree(full(rel), ignore_errors=True)
                    else:
                        os.unlink(full(rel))
                    model_delete(rel)
                    classes.append("path-removed-by-client")
            elif op == "recreate":
                rel = step[1]
                if rel not in alive_paths and ("/" not in rel or rel.split("/")[0] in alive_paths):
                    if KIND[rel] == "folder":
                        os.makedirs(full(rel), exist_ok=True)
                    else:
                        with open(full(rel), "w") as fh:
                            fh.write("x")
                    alive_paths.add(rel)
                    classes.append("path-recreated-without-registration")
            elif op == "probe":
                send(fd, "PROBE:0:noop")
            elif op == "raw":
                line = step[1].format(**{k.replace("/", "_"): full(k) for k in PATHS}, nope=full("never-registered"))
                send(fd, line)
                odd_seen = True
                classes.append("malformed")
            elif op in ("req", "mistyped"):
                cmd, rel = step[1], step[2]
                rtype = KIND[rel] if op == "req" else ("folder" if KIND[rel] == "file" else "file")
                send(fd, "%s:%s:%s" % (cmd, full(rel), rtype))
                key = (rtype, rel)
                if odd_seen:
                    nontrivial = True
                    classes.append("valid-after-malformed-or-unbalanced")
                if cmd == "REGISTER":
                    counts[key] = counts.get(key, 0) + 1
                    if counts[key] >= 2:
                        multi.add(key)
                elif cmd == "UNREGISTER":
                    if key in counts:
                        del counts[key]
                    else:
                        odd_seen = True
                        classes.append("unbalanced")
                elif cmd == "MAYBE_UNLINK":
                    if key not in counts:
                        odd_seen = True
                        classes.append("unbalanced")
                    else:
                        counts[key] -= 1
                        if counts[key] == 0:
                            del counts[key]
                            if key in multi:
                                nontrivial = True
                                classes.append("multi-registration-reaches-zero")
                            if rtype == KIND[rel]:
                                model_delete(rel)
                            # a mistyped cleanup (unlink on a folder / rmtree on a file) fails and leaves the path
            sync(where)
            got = _exists(top)
            if got != alive_paths:
                gone = sorted(alive_paths - got)
                kept = sorted(got - alive_paths)
                if gone:
                    raise Violation("path(s) %r deleted although the refcount model still has users / no registration (counts=%r); %s"
                                    % (gone, {("%s:%s" % k): v for k, v in counts.items()}, where), signature=["deleted-too-early"])
                raise Violation("path(s) %r still exist although their count returned to zero (counts=%r); %s"
                                % (kept, {("%s:%s" % k): v for k, v in counts.items()}, where), signature=["not-deleted"])
        # last clients go away
        for fd in clients.values():
            os.close(fd)
        clients.clear()
        try:
            trk.p.wait(timeout=30)
        except subprocess.TimeoutExpired:
            raise Violation("the tracker did not exit within 30 s after its last client closed the pipe; history=%s"
                            % json.dumps(spec["steps"]), signature=["tracker-stays"])
        for (rtype, rel), v in counts.items():
            if v > 0 and rtype == KIND[rel]:
                model_delete(rel)
        got = _exists(top)
        if got != alive_paths:
            raise Violation("after the last client left: existing paths %r, refcount model expects %r (still registered: %r); history=%s"
                            % (sorted(got), sorted(alive_paths), {("%s:%s" % k): v for k, v in counts.items()}, json.dumps(spec["steps"])),
                            signature=["final-cleanup"])
        if any(v > 0 for v in counts.values()):
            classes.append("leftovers-cleaned-at-exit")
    finally:
        for fd in clients.values():
            try:
                os.close(fd)
            except OSError:
                pass
        if trk.alive():
            try:
                trk.p.wait(timeout=5)
            except subprocess.TimeoutExpired:
                trk.p.kill()
        trk.err.close()
        shutil.rmtree(top, ignore_errors=True)
    return {"nontrivial": nontrivial, "classes": sorted(set(classes))}


def _err_tail(top):
    try:
        with open(os.path.join(top, "tracker.err"), "rb") as f:
            return f.read()[-400:].decode("utf-8", "replace")
    except OSError:
        return ""


def shard(ctx):
    ctx.hyp_run(strategy(), max_examples=ctx.pick(60, 800))
