"""C15 - n_jobs bounds concurrency; nesting never multiplies worker processes."""

import json
import os
import shutil
import threading
import warnings

from hypothesis import strategies as st

from ..core import Inconclusive, Violation

PROPERTY_ID = "C15"
LEVEL = "exploration"
RULE = (
    "Three generated sub-domains.  (a) arithmetic: n_jobs in [-2c, 2c], CPU affinity masks of 1..c CPUs (os.sched_setaffinity), "
    "LOKY_MAX_CPU_COUNT in {unset, 0, 1, 2, c, 2c}: cpu_count() and every backend's effective_n_jobs / joblib.effective_n_jobs "
    "are compared with an independent formula (usable = max(1, min(os.cpu_count(), |affinity|, cgroup quota, LOKY_MAX_CPU_COUNT)); n>0 -> n, "
    "n<0 -> max(usable+1+n, 1), 0 -> ValueError).  (b) concurrency on real backends (sequential, threading, loky, "
    "multiprocessing) x n_jobs 1..4 x task-duration patterns x batch sizes x pre_dispatch: tasks log start/end lines "
    "(O_APPEND, totally ordered); the number of simultaneously open intervals must never exceed the resolved n_jobs (the "
    "number of distinct (pid, thread) workers is recorded, not judged), and with n_jobs=1 every task runs in the calling thread.  "
    "(c) nesting: outer backend in {loky, threading, multiprocessing} with n_jobs=2, nested Parallel(n_jobs=2) calls that leave "
    "the backend unspecified (optionally with the hint prefer='processes'|'threads'), depth 1..3: every nested task must run in the process of its parent task, and level >= 2 tasks "
    "in the very thread of their parent.  Non-trivial: (a) a negative n_jobs or a restricting mask/env; (b) more tasks than "
    "n_jobs with sleeping tasks (an oversized pool would show); (c) depth >= 2.  distinct = hash of the case."
)
ASSUMPTIONS = [
    "the cgroup CPU quota is read by the harness itself (v2 cpu.max or v1 cfs files); in this sandbox it is unlimited",
    "log lines are written with O_APPEND single writes: their file order is a valid linearisation of starts and ends",
]
SHARDS = {"quick": 8, "thorough": 16}
TIMEOUT = {"quick": 900, "thorough": 3600}
NCPU = os.cpu_count() or 1


def strategy():
    arith = st.fixed_dictionaries({
        "mode": st.just("arith"),
        "n_jobs": st.integers(-2 * NCPU, 2 * NCPU),
        "mask": st.one_of(st.none(), st.integers(1, NCPU)),
        "env": st.sampled_from([None, None, "0", "1", "2", str(NCPU), str(2 * NCPU)]),
    })
    one_call = st.fixed_dictionaries({
        "n_jobs": st.sampled_from([1, 2, 3, 4, 2, 3, 4, 9, 10, 11, 12, NCPU]),
        "n": st.integers(1, 16),
        "sleeps": st.lists(st.sampled_from([0, 1, 5, 20, 40]), min_size=1, max_size=6),
    })
    conc = st.fixed_dictionaries({
        "mode": st.just("conc"),
        "backend": st.sampled_from(["threading", "loky", "multiprocessing", "sequential", "threading", "loky", "loky"]),
        # consecutive calls in one process: the loky executor is reused and resized between them
        "calls": st.lists(one_call, min_size=1, max_size=3),
        "inner_threads": st.sampled_from([None, None, 1]),
        "batch_size": st.sampled_from([1, 1, 2, "auto"]),
        "pre_dispatch": st.sampled_from(["2*n_jobs", "all", "n_jobs", 7]),
        "managed": st.booleans(),
    })
    nestc = st.fixed_dictionaries({
        "mode": st.just("nest"),
        "outer": st.sampled_from(["loky", "threading", "multiprocessing"]),
        "depth": st.integers(1, 3),
        "width": st.integers(1, 3),
        "prefer": st.sampled_from([None, None, "processes", "threads"]),    # only a hint: it must not multiply processes
    })
    return st.integers(0, 9).flatmap(lambda i: arith if i < 4 else conc if i < 8 else nestc)


def signature(spec):
    return None


def _cgroup_limit():
    """CPU bandwidth quota of the sandbox (cgroup v2 or v1), NCPU when unlimited - read independently of joblib."""
    import math
    try:
        if os.path.exists("/sys/fs/cgroup/cpu.max"):
            q, per = open("/sys/fs/cgroup/cpu.max").read().split()
            return NCPU if q == "max" else max(1, math.ceil(int(q) / int(per)))
        qf, pf = "/sys/fs/cgroup/cpu/cpu.cfs_quota_us", "/sys/fs/cgroup/cpu/cpu.cfs_period_us"
        if os.path.exists(qf) and os.path.exists(pf):
            q, per = int(open(qf).read()), int(open(pf).read())
            return max(1, math.ceil(q / per)) if q > 0 and per > 0 else NCPU
    except (OSError, ValueError):
        pass
    return NCPU


def _expected_n(n_jobs, usable):
    if n_jobs > 0:
        return n_jobs
    return max(usable + 1 + n_jobs, 1)


def _run_arith(spec):
    import joblib
    from joblib._parallel_backends import LokyBackend, MultiprocessingBackend, SequentialBackend, ThreadingBackend

    quota = _cgroup_limit()
    old_aff = os.sched_getaffinity(0)
    old_env = os.environ.get("LOKY_MAX_CPU_COUNT")
    try:
        avail = sorted(old_aff)
        if spec["mask"] is not None:
            os.sched_setaffinity(0, set(avail[:max(1, min(spec["mask"], len(avail)))]))
        if spec["env"] is None:
            os.environ.pop("LOKY_MAX_CPU_COUNT", None)
        else:
            os.environ["LOKY_MAX_CPU_COUNT"] = spec["env"]
        aff = len(os.sched_getaffinity(0))
        env = int(spec["env"]) if spec["env"] is not None else NCPU
        usable = max(1, min(NCPU, aff, env, quota))
        where = "affinity=%d CPUs LOKY_MAX_CPU_COUNT=%r os.cpu_count()=%d" % (aff, spec["env"], NCPU)
        got = joblib.cpu_count()
        if got != usable or got < 1:
            raise Violation("cpu_count() = %r, expected %d (%s)" % (got, usable, where), signature=["cpu_count"])
        n = spec["n_jobs"]
        for name, be in (("threading", ThreadingBackend()), ("loky", LokyBackend(nesting_level=0)),
                         ("multiprocessing", MultiprocessingBackend(nesting_level=0)), ("sequential", SequentialBackend())):
            try:
                r = be.effective_n_jobs(n)
            except ValueError:
                r = "ValueError"
            want = "ValueError" if n == 0 else (1 if name == "sequential" else _expected_n(n, usable))
            if r != want:
                raise Violation("%s.effective_n_jobs(%d) = %r, expected %r (%s)" % (name, n, r, want, where), signature=["effective_n_jobs", name])
        try:
            r = joblib.effective_n_jobs(n)
        except ValueError:
            r = "ValueError"
        want = "ValueError" if n == 0 else _expected_n(n, usable)
        if r != want:
            raise Violation("joblib.effective_n_jobs(%d) = %r, expected %r (%s)" % (n, r, want, where), signature=["effective_n_jobs", "api"])
        if n == 0:
            try:
                joblib.Parallel(n_jobs=0, backend="threading")([])
                raise Violation("Parallel(n_jobs=0) accepted", signature=["n_jobs=0"])
            except ValueError:
                pass
    finally:
        os.sched_setaffinity(0, old_aff)
        if old_env is None:
            os.environ.pop("LOKY_MAX_CPU_COUNT", None)
        else:
            os.environ["LOKY_MAX_CPU_COUNT"] = old_env
    nt = spec["n_jobs"] < 0 or spec["mask"] is not None or spec["env"] is not None
    return {"nontrivial": nt, "classes": ["arith", "n_jobs<0" if spec["n_jobs"] < 0 else "n_jobs>=0"]}


def _parse(logpath):
    with open(logpath) as f:
        return [ln.split() for ln in f.read().splitlines()]


def _run_conc(spec):
    import contextlib

    import joblib
    from joblib import Parallel, delayed, parallel_config
    from vf import tasks

    scratch = os.environ.get("VF_SCRATCH", "/tmp")
    logpath = os.path.join(scratch, "c15-%d.log" % os.getpid())
    backend = spec["backend"]
    me = (os.getpid(), threading.get_ident())
    nt = False
    classes = ["conc", "backend=" + backend]
    prev_n = None
    for ci, call in enumerate(spec["calls"]):
        if os.path.exists(logpath):
            os.unlink(logpath)
        n_jobs = 1 if backend == "sequential" else call["n_jobs"]
        n_tasks = call["n"] + (n_jobs if n_jobs > 4 else 0)     # enough tasks to fill a large pool
        kw = dict(n_jobs=n_jobs, batch_size=spec["batch_size"], pre_dispatch=spec["pre_dispatch"])
        ctx = contextlib.nullcontext()
        if backend == "loky" and spec.get("inner_threads"):
            ctx = parallel_config(backend="loky", inner_max_num_threads=spec["inner_threads"])
        elif backend != "sequential":
            kw["backend"] = backend
        sleeps = call["sleeps"] if n_jobs <= 4 else [40]
        items = [delayed(tasks.rtask)(i, sleeps[i % len(sleeps)], logpath) for i in range(n_tasks)]
        try:
            with ctx:
                if spec["managed"]:
                    with Parallel(**kw) as p:
                        res = p(items)
                else:
                    res = Parallel(**kw)(items)
            if res != [("r", i, i % 3) for i in range(n_tasks)]:
                raise Violation("wrong results %r" % (res[:10],), signature=["results"])
            lines = _parse(logpath)
        finally:
            if os.path.exists(logpath):
                os.unlink(logpath)
        where = "call %d/%d backend=%s n_jobs=%d (previous call: %r) n=%d inner_max_num_threads=%r batch_size=%r pre_dispatch=%r managed=%s sleeps=%r" % (
            ci + 1, len(spec["calls"]), backend, n_jobs, prev_n, n_tasks, spec.get("inner_threads"), spec["batch_size"], spec["pre_dispatch"],
            spec["managed"], sleeps)
        open_now, high = set(), 0
        workers = set()
        for kind, idx, pid, tid in lines:
            w = (int(pid), int(tid))
            workers.add(w)
            if kind == "S":
                open_now.add(idx)
                high = max(high, len(open_now))
            else:
                open_now.discard(idx)
        if high > n_jobs:
            raise Violation("%d tasks were running simultaneously with n_jobs=%d (%s)" % (high, n_jobs, where), signature=["oversubscribed", backend])
        if len(workers) > n_jobs:
            # recorded, not judged: the statement bounds simultaneous tasks, not the number of workers used over a call
            classes.append("more-distinct-workers-than-n_jobs")
        if n_jobs == 1 and workers - {me}:
            raise Violation("n_jobs=1 but tasks ran outside the calling thread: %r (caller %r) (%s)" % (sorted(workers), me, where),
                            signature=["n_jobs=1-not-inline", backend])
        if n_tasks > n_jobs and any(x >= 5 for x in sleeps):
            nt = True
        if prev_n is not None and n_jobs < prev_n and backend == "loky":
            classes.append("loky-shrinks-n_jobs")
        classes.append("high=%d/%d" % (high, n_jobs) if n_jobs <= 4 else "large-n_jobs")
        prev_n = n_jobs
    return {"nontrivial": nt, "classes": sorted(set(classes))}


def _run_nest(spec):
    from joblib import Parallel, delayed
    from vf import tasks

    scratch = os.environ.get("VF_SCRATCH", "/tmp")
    logpath = os.path.join(scratch, "c15n-%d.log" % os.getpid())
    if os.path.exists(logpath):
        os.unlink(logpath)
    try:
        Parallel(n_jobs=2, backend=spec["outer"])(
            delayed(tasks.nest)(0, spec["depth"], "t%d" % i, logpath, 5, spec.get("prefer")) for i in range(spec["width"]))
        lines = _parse(logpath)
    finally:
        if os.path.exists(logpath):
            os.unlink(logpath)
    info = {ln[2]: (int(ln[1]), int(ln[3]), int(ln[4])) for ln in lines}   # path -> (level, pid, tid)
    where = "outer=%s depth=%d width=%d nested prefer=%r" % (spec["outer"], spec["depth"], spec["width"], spec.get("prefer"))
    expected_paths = 0
    for path, (level, pid, tid) in info.items():
        if level == 0:
            continue
        parent = path.rsplit(".", 1)[0]
        if parent not in info:
            raise Inconclusive("parent of %s missing in the log" % path)
        plevel, ppid, ptid = info[parent]
        if pid != ppid:
            raise Violation("nested task %s (level %d) ran in process %d, its parent task ran in %d: a nested Parallel call started "
                            "worker processes (%s)" % (path, level, pid, ppid, where), signature=["nested-processes", spec["outer"]])
        if level >= 2 and tid != ptid:
            raise Violation("level-%d task %s ran in thread %d, not in the thread %d of its parent (deeper levels must be sequential) (%s)"
                            % (level, path, tid, ptid, where), signature=["deep-nesting-not-sequential", spec["outer"]])
    n_expected = spec["width"] * sum(2 ** lv for lv in range(spec["depth"] + 1))
    if len(info) != n_expected:
        raise Violation("%d nested tasks logged, expected %d (%s)" % (len(info), n_expected, where), signature=["nested-count"])
    return {"nontrivial": spec["depth"] >= 2, "classes": ["nest", "outer=" + spec["outer"], "depth=%d" % spec["depth"]]}


def run_case(spec):
    warnings.simplefilter("ignore")
    if spec["mode"] == "arith":
        return _run_arith(spec)
    if spec["mode"] == "conc":
        return _run_conc(spec)
    return _run_nest(spec)


def shard(ctx):
    ctx.hyp_run(strategy(), max_examples=ctx.pick(200, 2500), shrink=ctx.thorough)
