"""C08 - joblib.hash is deterministic, order-insensitive, type-discriminating.

Each example is a pool of values (a base value, near-colliding mutants of it,
and an independent value).  Every value is rebuilt and hashed by four persistent
interpreters with different PYTHONHASHSEED, under drawn insertion permutations
and from freshly built strings; all digests of one value must agree.  All pairs
of the pool are compared: canonical forms equal <=> digests equal.
"""

import json
import os
import subprocess
import sys

from hypothesis import strategies as st

from ..core import HarnessError, Violation
from ..engines import values as V

PROPERTY_ID = "C08"
LEVEL = "exploration"
RULE = (
    "Hypothesis draws a pool of 4-10 value specs from a recursive typed universe (None/bool/int/float/complex/str/bytes/"
    "bytearray leaves; tuple/list/dict/set/frozenset/harness-object containers, no aliasing, NaN never a key): a base value, "
    "mutants of it (one leaf retyped or changed, one container kind swapped) and independent values.  Each value is hashed "
    "(md5 and sha1) in 4 interpreters with PYTHONHASHSEED 0/1/4242/random x {original order, 2 drawn insertion permutations} "
    "with one configuration building every str/bytes leaf afresh (equal but distinct objects) and two sharing one object between equal str/bytes leaves; all 12 digests per algorithm must be equal and no hash may raise.  All "
    "pairs of the pool: canon(a)==canon(b) <=> digest(a)==digest(b).  evaluations = pools.  A pool is non-trivial when it "
    "contains a dict/set/frozenset with >=2 elements and a pair of distinct values whose specs differ in exactly one node; "
    "distinct = hash of the pool."
)
ASSUMPTIONS = [
    "canonical form (type-tagged, order-insensitive JSON) defines 'same value'",
    "sub-objects are always built fresh (the statement promises identity-independence only for strings)",
    "0.0 and -0.0 are different values (different canon, different pickle bytes)",
]
SHARDS = {"quick": 8, "thorough": 16}
SEEDS = ["0", "1", "4242", "random"]

_servers = []


def prepare(ctx):
    env = dict(os.environ)
    for s in SEEDS:
        e = dict(env)
        e["PYTHONHASHSEED"] = s
        p = subprocess.Popen([sys.executable, "-m", "vf.engines.hashserver"], stdin=subprocess.PIPE,
                             stdout=subprocess.PIPE, env=e, text=True, bufsize=1)
        _servers.append(p)


def finish(ctx):
    for p in _servers:
        try:
            p.stdin.close()
            p.wait(timeout=5)
        except Exception:
            p.kill()
    del _servers[:]


def _ask(server, reqs):
    p = _servers[server]
    p.stdin.write(json.dumps(reqs) + "\n")
    p.stdin.flush()
    line = p.stdout.readline()
    if not line:
        raise HarnessError("hash server %d died" % server)
    return json.loads(line)


# ---- near-collision mutations ---------------------------------------------------

LEAF_ALTS = {
    "int": lambda s: [["float", V.fhex(float(int(s[1])))] if abs(int(s[1])) < 2 ** 53 else ["str", s[1]],
                      ["bool", bool(int(s[1]))], ["str", s[1]], ["bytes", s[1].encode().hex()],
                      ["int", str(int(s[1]) + 1)]],
    "float": lambda s: [["int", "1"], ["float", V.fhex(2.5)], ["str", s[1]], ["complex", s[1], V.fhex(0.0)]],
    "bool": lambda s: [["int", str(int(s[1]))], ["float", V.fhex(float(s[1]))], ["bool", not s[1]], ["str", str(bool(s[1]))]],
    "none": lambda s: [["str", "None"], ["bool", False], ["int", "0"]],
    "str": lambda s: [["bytes", s[1].encode("utf-8").hex()], ["str", s[1] + "a"], ["str", s[1].upper() + "x"],
                      ["tuple", [["str", s[1]]]]],
    "bytes": lambda s: [["str", bytes.fromhex(s[1]).decode("latin-1")], ["bytes", s[1] + "00"]],
    "bytearray": lambda s: [["bytes", s[1]], ["bytearray", s[1] + "01"]],
    "complex": lambda s: [["float", s[1]], ["complex", s[2], s[1]]],
}
SWAP_HASHABLE = {"tuple": ["frozenset"], "frozenset": ["tuple"]}
SWAP_ANY = {"tuple": ["list", "frozenset", "set"], "list": ["tuple", "set", "frozenset"],
            "set": ["frozenset", "list", "tuple"], "frozenset": ["set", "tuple", "list"]}


def _hashable_ctx(path, spec):
    """True when the node at path sits inside a set/frozenset or a dict key."""
    cur = spec
    i = 0
    inside = False
    while i < len(path):
        t = cur[0]
        if t in ("set", "frozenset"):
            inside = True
            cur = cur[1][path[i + 1]]
            i += 2
        elif t in ("tuple", "list"):
            cur = cur[1][path[i + 1]]
            i += 2
        elif t == "dict":
            if path[i + 2] == 0:
                inside = True
            cur = cur[1][path[i + 1]][path[i + 2]]
            i += 3
        elif t == "obj":
            cur = cur[2][path[i + 1]][1]
            i += 3
        else:
            break
    return inside


def _is_hashable_spec(s):
    t = s[0]
    if t in ("list", "set", "dict", "bytearray", "obj"):
        return False
    if t in ("tuple", "frozenset"):
        return all(_is_hashable_spec(x) for x in s[1])
    return True


def renorm(s):
    """Re-establish the generator's invariants after a mutation (no two ==
    elements in a set / dict keys; NaN not a key)."""
    t = s[0]
    if t in ("tuple", "list"):
        return [t, [renorm(x) for x in s[1]]]
    if t in ("set", "frozenset"):
        items = [renorm(x) for x in s[1] if _is_hashable_spec(x) and not _has_nan(x)]
        return [t, V.dedupe(items)]
    if t == "dict":
        kvs = [[renorm(k), renorm(v)] for k, v in s[1] if _is_hashable_spec(k) and not _has_nan(k)]
        return [t, V.dedupe(kvs, key=lambda kv: kv[0])]
    if t == "obj":
        return [t, s[1], [[k, renorm(v)] for k, v in s[2]]]
    return s


def _has_nan(s):
    return any(n[0] in ("float", "complex") and "nan" in n[1:] for _, n in V.nodes(s))


def mutate(spec, node_idx, alt_idx):
    ns = list(V.nodes(spec))
    path, node = ns[node_idx % len(ns)]
    t = node[0]
    hctx = _hashable_ctx(path, spec)
    if t in LEAF_ALTS:
        alts = LEAF_ALTS[t](node)
        if hctx:
            alts = [a for a in alts if _is_hashable_spec(a) and not _has_nan(a)]
    elif t in SWAP_ANY:
        kinds = SWAP_HASHABLE.get(t, []) if hctx else SWAP_ANY[t]
        alts = []
        for k in kinds:
            if k in ("set", "frozenset") and not all(_is_hashable_spec(x) and not _has_nan(x) for x in node[1]):
                continue
            alts.append([k, node[1]])
        alts.append([t, node[1] + [["int", "7"]]] if t in ("tuple", "list") else [t, node[1][:-1]])
    elif t == "dict":
        alts = [["list", [["tuple", [k, v]] for k, v in node[1]]], ["dict", node[1][:-1]]]
        if hctx:
            alts = []
    elif t == "obj":
        alts = [["dict", [[["str", k], v] for k, v in node[2]]]]
        if node[1] == "P":
            alts.append(["obj", "P", node[2][:-1]])
    else:
        alts = []
    if not alts:
        return spec
    return renorm(V.replace_at(spec, path, alts[alt_idx % len(alts)]))


@st.composite
def pools(draw):
    base = renorm(draw(V.values(max_leaves=8)))
    pool = [base]
    n_mut = draw(st.integers(2, 6))
    for _ in range(n_mut):
        src = pool[draw(st.integers(0, len(pool) - 1))]
        pool.append(mutate(src, draw(st.integers(0, 40)), draw(st.integers(0, 5))))
    for _ in range(draw(st.integers(0, 2))):
        pool.append(renorm(draw(V.values(max_leaves=5))))
    # a value in which the same str/bytes content occurs several times (shared vs distinct objects)
    if draw(st.booleans()):
        leaf = draw(st.sampled_from([["str", "ab"], ["bytes", "6162"], ["str", "\u00e9\u00e9x"], ["bytes", "000102"], ["str", "a"], ["bytes", "61"]]))
        how = draw(st.sampled_from(["list", "tuple", "dictval", "nested"]))
        if how == "list":
            pool.append(["list", [leaf, leaf, pool[0]]])
        elif how == "tuple":
            pool.append(["tuple", [leaf, ["list", [leaf]]]])
        elif how == "dictval":
            pool.append(["dict", [[["int", "1"], leaf], [["int", "2"], leaf], [leaf, leaf]]])
        else:
            pool.append(["list", [["tuple", [leaf, leaf]], ["obj", "P", [["u", leaf], ["v", leaf]]]]])
    return {"pool": pool, "perms": [draw(st.integers(0, 10 ** 6)) for _ in range(2)]}


def strategy():
    return pools()


def _diff_nodes(a, b):
    """Number of differing nodes when structure is the same, else a big number."""
    if a == b:
        return 0
    if a[0] == b[0] and a[0] in ("tuple", "list") and len(a[1]) == len(b[1]):
        return sum(_diff_nodes(x, y) for x, y in zip(a[1], b[1]))
    if a[0] == b[0] and a[0] == "dict" and len(a[1]) == len(b[1]):
        return sum(_diff_nodes(x[0], y[0]) + _diff_nodes(x[1], y[1]) for x, y in zip(a[1], b[1]))
    if a[0] == b[0] and a[0] == "obj" and [k for k, _ in a[2]] == [k for k, _ in b[2]] and a[1] == b[1]:
        return sum(_diff_nodes(x[1], y[1]) for x, y in zip(a[2], b[2]))
    if a[0] in V.__dict__.get("_SCALARS", ()) :
        return 1
    if a[0] != b[0] and len(a) > 1 and len(b) > 1 and a[1] == b[1]:
        return 1  # container kind / leaf type swap
    if a[0] == b[0] and a[0] in ("set", "frozenset") and len(a[1]) == len(b[1]):
        return sum(_diff_nodes(x, y) for x, y in zip(a[1], b[1]))
    return 1 if V.count_nodes(a) == 1 and V.count_nodes(b) == 1 else 99


def _value_sig(vspec):
    feats = []
    for _, n in V.nodes(vspec):
        if n[0] == "frozenset" and len(n[1]) >= 2:
            feats.append("frozenset>=2")
        if n[0] in ("set", "frozenset"):
            elems = n[1]
        elif n[0] == "dict":
            elems = [k for k, _ in n[1]]
        else:
            continue
        if len(elems) >= 2 and any(any(m[0] == "frozenset" for _, m in V.nodes(e)) for e in elems):
            feats.append("partially-ordered-elements")
    return sorted(set(feats))


def run_case(spec):
    if not _servers:
        prepare(None)
    pool = spec["pool"]
    perms = [None] + list(spec["perms"])
    digests = []  # per value: (md5, sha1)
    for vi, v in enumerate(pool):
        all_md5, all_sha1 = [], []
        for s in range(len(SEEDS)):
            reqs = [{"spec": v, "perm": p, "fresh": (s == 1 and pi == 1), "share": (s == 2 and pi == 1) or (s == 0 and pi == 2)}
                    for pi, p in enumerate(perms)]
            for r, q in zip(_ask(s, reqs), reqs):
                if "error" in r:
                    raise Violation("joblib.hash raised %s for value %s (PYTHONHASHSEED=%s perm=%s)"
                                    % (r["error"], json.dumps(v), SEEDS[s], q["perm"]), signature=["raises"] + _value_sig(v))
                all_md5.append((SEEDS[s], q["perm"], "fresh" if q["fresh"] else "shared" if q["share"] else "", r["md5"]))
                all_sha1.append((SEEDS[s], q["perm"], "fresh" if q["fresh"] else "shared" if q["share"] else "", r["sha1"]))
        for name, alld in (("md5", all_md5), ("sha1", all_sha1)):
            if len(set(d[-1] for d in alld)) != 1:
                raise Violation(
                    "joblib.hash(%s) of the same value differs across (PYTHONHASHSEED, insertion permutation, fresh strings): %s ; value spec %s"
                    % (name, sorted(set((d[0], d[1], d[2], d[3][:8]) for d in alld), key=repr)[:8], json.dumps(v)),
                    signature=["nondeterministic"] + _value_sig(v))
        digests.append((all_md5[0][-1], all_sha1[0][-1]))
    canons = [V.canon(v) for v in pool]
    close_pair = False
    for i in range(len(pool)):
        for j in range(i + 1, len(pool)):
            same = canons[i] == canons[j]
            if not same and _diff_nodes(pool[i], pool[j]) == 1:
                close_pair = True
            for k, name in ((0, "md5"), (1, "sha1")):
                eq = digests[i][k] == digests[j][k]
                if same and not eq:
                    raise Violation("same value, different %s digests: %s vs %s" % (name, json.dumps(pool[i]), json.dumps(pool[j])),
                                    signature=["same-value-differs"])
                if eq and not same:
                    raise Violation("different values share a %s digest %s: %s vs %s"
                                    % (name, digests[i][k], json.dumps(pool[i]), json.dumps(pool[j])),
                                    signature=["collision"])
    unordered = any(V.has_unordered(v) for v in pool)
    classes = []
    if unordered:
        classes.append("has-unordered>=2")
    if close_pair:
        classes.append("one-node-pair")
    if any(n[0] == "frozenset" and len(n[1]) >= 2 for v in pool for _, n in V.nodes(v)):
        classes.append("frozenset>=2")
    if any("partially-ordered-elements" in _value_sig(v) for v in pool):
        classes.append("partially-ordered-elements")
    if any(n[0] == "obj" for v in pool for _, n in V.nodes(v)):
        classes.append("has-object")
    return {"nontrivial": unordered and close_pair, "classes": classes}


def shard(ctx):
    ctx.hyp_run(strategy(), max_examples=ctx.pick(250, 3000))
