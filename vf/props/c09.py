"""C09 - Parallel consumes its input lazily, boundedly and from one thread at a time."""

import json

from hypothesis import strategies as st

from ..core import Inconclusive, Violation
from ..engines import sched_strat as SS

PROPERTY_ID = "C09"
LEVEL = "exploration"
RULE = (
    "E1 (controlled backend) with an instrumented input iterator (items handed out, thread inside, optional pause): "
    "configurations as in C01 (all pre_dispatch forms, fixed and drawn 'auto' batch sizes, n_jobs 2..6), input lengths up "
    "to 3x the bound, schedules with out-of-order and synchronous completions and gates that hold a thread inside the "
    "iterator / compute_batch_size / submit / retrieve hooks while other batches complete or fail; optionally failing tasks "
    "and (generator modes) a close at a drawn instant.  Oracle, with P = pre_dispatch in tasks (independently evaluated), b "
    "= largest batch size, n = n_jobs: (i) pre_dispatch='all': when the initial burst ends without any completion, pulled == N; (ii) at every event pulled - done <= (P + 2n)*b, independent of N; (iii) batches in flight <= P at every event; "
    "(iv) the iterator is never entered by a thread while another is inside; (v) after the failing batch's callback has "
    "returned, or close() has returned, pulled never increases.  Plus eval_expr == Python arithmetic on generated "
    "expressions and ValueError for names/calls/attributes.  Non-trivial: N > (P+2n)*b and (a completion issued while a "
    "thread is held at a gate, or a failure/close with items remaining).  distinct = (config, N, abstract schedule)."
)
ASSUMPTIONS = [
    "the bound (P + 2n)*b is deliberately loose: one dispatch per completed batch plus one look-ahead slice of n*b",
    "'after a failure' means after the failing batch's completion callback has returned to the backend",
    "re-entrancy is observed one-sidedly (a thread seen inside the iterator while another is inside)",
]
SHARDS = {"quick": 8, "thorough": 16}


@st.composite
def scenarios(draw):
    spec = draw(SS.configs(return_as=("list", "generator", "generator_unordered"), inputs=("iterator", "generator")))
    p = SS.eval_pre_dispatch(spec["pre_dispatch"], spec["n_jobs"])
    b = SS.max_batch(spec)
    bound = ((p or 6) + 2 * spec["n_jobs"]) * b
    big = st.integers(bound + 1, min(3 * bound + 3, 400)) if bound + 1 <= 400 else st.integers(100, 400)
    n = draw(st.one_of(st.integers(0, 10), big, SS.n_tasks(spec)))
    call = {"n": n, "sync": draw(st.lists(st.integers(0, 12), max_size=5, unique=True)),
            "gates": draw(SS.gates(kinds=("iter", "iter", "batchsize", "submit", "retrieve", "batchdone"), max_at=20)),
            "fail": {}, "iter_fail": None, "never": []}
    if draw(st.integers(0, 2)) == 0 and n > 0:
        call["fail"][str(draw(st.integers(0, n - 1)))] = "value"
    steps = [st.tuples(st.just("c"), st.integers(0, 7)).map(list)] * 6
    if spec["return_as"] != "list":
        steps += [st.just(["next"]), st.just(["next"]), st.just(["close"])]
    call["steps"] = draw(st.lists(st.one_of(steps), max_size=40))
    spec["calls"] = [call]
    spec["mode"] = "sched"
    return spec


def strategy():
    return scenarios()


def signature(spec):
    return None


def run_case(spec):
    if spec.get("mode") == "expr":
        return _run_expr(spec)
    from ..engines import sched

    report = sched.run(spec)
    harness = [p for p in report["problems"] if p.startswith("harness")]
    if harness:
        raise Inconclusive("; ".join(harness))
    rec, call = report["calls"][0], spec["calls"][0]
    N, n = call["n"], spec["n_jobs"]
    P = SS.eval_pre_dispatch(spec["pre_dispatch"], n)
    b = SS.max_batch(spec)
    where = "n_jobs=%d batch_size=%r%s pre_dispatch=%r return_as=%s input=%s N=%d" % (
        n, spec["batch_size"], spec.get("auto_sizes") if spec["batch_size"] == "auto" else "", spec["pre_dispatch"],
        spec["return_as"], spec["input"], N)
    evs = SS.call_events(report, 0)
    # (iv) re-entrancy
    for e in evs:
        if e["kind"] == "reentrant":
            raise Violation("input iterator entered by thread %s while %s was inside it (%s)" % (e["thread"], e["other"], where),
                            signature=["reentrant"])
    if rec.get("exception") and "already executing" in rec["exception"]["args"]:
        raise Violation("input generator entered by two threads at once: %r (%s)" % (rec["exception"], where), signature=["reentrant"])
    # (i) lazy initial burst
    burst_end = next((e for e in evs if e["kind"] in ("retrieval_enter", "call_returned_generator")), None)
    first_completion = next((e for e in evs if e["kind"] == "complete_start"), None)
    if burst_end and (first_completion is None or first_completion["seq"] > burst_end["seq"]) and not rec.get("exception"):
        # the statement fixes the size of the initial burst only for 'all' (everything up front); for the other forms the
        # burst is judged by the bounds below, like every other instant
        if P is None and burst_end["pulled"] != N:
            raise Violation("pre_dispatch='all': the initial burst pulled %d of %d items (%s)" % (burst_end["pulled"], N, where),
                            signature=["burst-size"])
    # (ii)/(iii) bounds at every event
    if P is not None:
        bound = (P + 2 * n) * b
        for e in evs:
            if e["pulled"] - e["done"] > bound:
                raise Violation("items taken (%d) exceed completed tasks (%d) by %d > (P+2n)*b = %d at event %s seq %d (%s)"
                                % (e["pulled"], e["done"], e["pulled"] - e["done"], bound, e["kind"], e["seq"], where),
                                signature=["unbounded-lookahead"])
            if e["inflight"] > max(P, 1):
                raise Violation("%d batches in flight > pre_dispatch=%d at event %s seq %d (%s); completions before that: %d"
                                % (e["inflight"], P, e["kind"], e["seq"], where,
                                   sum(1 for x in evs if x["kind"] == "cb_return" and x["seq"] < e["seq"])),
                                signature=["inflight>pre_dispatch"])
    # (v) nothing pulled after a registered failure / after close returned
    stop_seq, why = None, None
    for e in evs:
        if e["kind"] == "cb_return" and e.get("failed"):
            stop_seq, why = e["seq"], "the failing batch's callback returned"
            break
    if rec.get("closed_seq") is not None and (stop_seq is None or rec["closed_seq"] < stop_seq):
        stop_seq, why = rec["closed_seq"], "close() returned"
    remaining = False
    if stop_seq is not None:
        at_stop = next(e for e in evs if e["seq"] >= stop_seq)
        remaining = at_stop["pulled"] < N
        for e in evs:
            # judged at the ENTRY into the iterator: a __next__ that the harness itself kept paused across the stop
            # instant was entered before it
            if e["seq"] > stop_seq and e["kind"] == "pull_enter" and e["i"] < N:
                raise Violation("item %d requested from the input after %s (seq %d > %d) (%s)" % (e["i"], why, e["seq"], stop_seq, where),
                                signature=["pull-after-stop", "failure" if "failing" in why else "close"])
    if rec["outcome"] == "hang":
        raise Inconclusive("hang (judged by C01/C04/C16)")
    f = SS.schedule_features(report, 0)
    big = P is not None and N > (P + 2 * n) * b
    nontrivial = big and (f["probes"] > 0 or (stop_seq is not None and remaining))
    classes = ["pre_dispatch=%s" % spec["pre_dispatch"], "return_as=" + spec["return_as"]]
    if big:
        classes.append("N>bound")
    if f["probes"]:
        classes.append("probe-under-gate")
    if stop_seq is not None and remaining:
        classes.append("stop-with-items-remaining")
    for g, _ in f["gates"]:
        classes.append("gate=" + g)
    key = [spec["n_jobs"], spec["batch_size"], spec.get("auto_sizes"), spec["pre_dispatch"], spec["return_as"], N,
           f["order"], f["sync"], f["gates"], f["probes"], bool(call["fail"])]
    return {"nontrivial": nontrivial, "classes": sorted(set(classes)), "key": key}


# ---- eval_expr -------------------------------------------------------------------------

def _exprs():
    nums = st.one_of(st.integers(0, 20).map(str), st.sampled_from(["1.5", "2.0", "0.5", "10", "3"]))

    def ext(ch):
        return st.one_of(
            st.tuples(ch, st.sampled_from(["+", "-", "*", "/", "//", "%"]), ch).map(lambda t: "(%s %s %s)" % t),
            st.tuples(ch, st.sampled_from(["2", "3", "0", "1"])).map(lambda t: "(%s ** %s)" % t),
            ch.map(lambda x: "(-%s)" % x),
        )
    good = st.recursive(nums, ext, max_leaves=6)
    bad = st.sampled_from(["n_jobs", "2*n_jobs", "__import__('os')", "(1).real", "abs(1)", "[1][0]", "1 if 1 else 2", "2 +", "1 < 2",
                           "lambda: 1", "a.b", "1 and 2", "~1", "1 << 2"])
    return st.one_of(good.map(lambda e: {"mode": "expr", "expr": e, "bad": False}), bad.map(lambda e: {"mode": "expr", "expr": e, "bad": True}))


def _run_expr(spec):
    from joblib._utils import eval_expr

    e = spec["expr"]
    if spec["bad"]:
        try:
            r = eval_expr(e)
        except ValueError:
            return {"nontrivial": False, "classes": ["expr-rejected"]}
        except Exception as ex:
            raise Violation("eval_expr(%r) raised %s instead of ValueError" % (e, type(ex).__name__), signature=["expr"])
        raise Violation("eval_expr(%r) returned %r for a non-arithmetic expression" % (e, r), signature=["expr"])
    try:
        want = ("ok", eval(e, {"__builtins__": {}}, {}))
    except ZeroDivisionError:
        want = ("zerodiv", None)
    except OverflowError:
        want = ("overflow", None)
    try:
        got = ("ok", eval_expr(e))
    except ZeroDivisionError:
        got = ("zerodiv", None)
    except OverflowError:
        got = ("overflow", None)
    except Exception as ex:
        raise Violation("eval_expr(%r) raised %s: %s; Python gives %r" % (e, type(ex).__name__, ex, want), signature=["expr"])
    if got != want or type(got[1]) is not type(want[1]):
        raise Violation("eval_expr(%r) = %r, Python gives %r" % (e, got, want), signature=["expr"])
    return {"nontrivial": False, "classes": ["expr-ok"]}


def shard(ctx):
    ctx.hyp_run(strategy(), max_examples=ctx.pick(200, 3000), label="sched")
    ctx.hyp_run(_exprs(), max_examples=ctx.pick(150, 1500), label="expr")
