"""C06 - Memory serves repeated calls from cache whatever the equivalent call form."""

import json
import os

from ..core import Violation
from ..engines import memmachine as MM
from ..engines import sigs as S
from . import c02

PROPERTY_ID = "C06"
LEVEL = "exploration"
RULE = (
    "Same generated histories as C02 (signatures from the exhaustive <=4-parameter set, function and bound-method carriers, "
    "ignore lists, argument vectors from a near-colliding pool, spellings: number of positionals / keywords / defaults "
    "omitted or spelled out / dicts and sets rebuilt in a drawn insertion order / other values for ignored parameters; ops: "
    "call, call_and_shelve, check_call_in_cache, the same call in another interpreter with a different PYTHONHASHSEED, "
    "Memory.clear, f.clear, reduce_size(items_limit=0 | huge)).  Oracle = reference model (set of present keys, key = "
    "function + canonical bound non-ignored arguments): (i) a call whose key the model holds executes the body 0 times "
    "(execution log written by the body itself, also in the other process); (ii) check_call_in_cache is True exactly when "
    "the model holds the key; (iii) no spelling that inspect.Signature.bind accepts makes the wrapper raise.  Non-trivial: "
    "a hit through a spelling different from the one that created the entry, or with a different ignored value, or in the "
    "other process.  distinct = hash of the history."
)
ASSUMPTIONS = [
    "entries disappear only through the explicit clear / reduce_size steps of the history (outputs are small picklable tuples)",
    "async carriers are judged like plain functions; partial carriers are only judged for values (C02): joblib keys them on their literal call arguments",
]
SHARDS = {"quick": 16, "thorough": 16}

prepare = c02.prepare
finish = c02.finish


def strategy():
    return MM.specs()


def run_case(spec):
    if not c02._server:
        c02.prepare(None)
    scratch = os.environ.get("VF_SCRATCH", "/tmp")
    records = MM.run(spec, scratch, c02._server[0])
    model = {}   # key(json) -> creating spelling / process
    nontrivial = False
    classes = []
    sigs_txt = [S.sig_source(s) for s in spec["sigs"]]
    for r in records:
        op = r["op"]
        if op in ("clear_all", "reduce0"):
            model.clear()
            continue
        if op == "reduce_big":
            continue
        if op == "clear_f":
            for k in [k for k in model if json.loads(k)[0] == "f_%d" % r["f"]]:
                del model[k]
            continue
        if "skipped" in r:
            classes.append("skipped-" + r["skipped"])
            continue
        if r["key"][0] in ("pA", "pB"):
            # partial objects are keyed on their literal call arguments and share one directory per process run:
            # only value correctness (C02) is asserted for them
            classes.append("partial-carrier-not-judged")
            continue
        key = json.dumps(r["key"][1:] if r["key"][0] in ("f", "as") else ["m"] + r["key"][1:])
        ctx = "step %d op=%s %s carrier=%s spelling=%r signatures=%s ignore=%r compress=%r" % (
            r["i"], op, r["expected"][0], r["key"][0], r["spelling"][:3], sigs_txt, spec["ignore"], spec["compress"])
        if "raised" in r:
            raise Violation("%s: a call the plain function accepts made the wrapper raise %s" % (ctx, r["raised"]),
                            signature=["raises"])
        if op == "check":
            want = key in model
            if r["check"] is not want:
                raise Violation("%s: check_call_in_cache returned %r but the entry %s (model: created by %r)"
                                % (ctx, r["check"], "exists" if want else "does not exist", model.get(key)),
                                signature=["check", want])
            classes.append("check=%s" % want)
            continue
        executed = r.get("executed")
        if key in model:
            if executed:
                raise Violation("%s: the body was executed again (%d time(s)) although this call completed before (entry created by "
                                "%r) and nothing evicted it; bound arguments %s"
                                % (ctx, executed, model[key], r["expected"][1]), signature=["miss", op == "server"])
            created = model[key]
            if created["spelling"] != r["spelling"][:2] or created["perm"] != r["spelling"][2] or created["raw"] != r["spelling"][3] or \
                    (op == "server") != created["server"]:
                nontrivial = True
                classes.append("hit-via-other-spelling" if (op == "server") == created["server"] else "hit-in-other-process")
        else:
            if executed != 1:
                raise Violation("%s: first call with these arguments executed the body %r times (expected once)" % (ctx, executed),
                                signature=["first-call", executed])
            model[key] = {"spelling": r["spelling"][:2], "perm": r["spelling"][2], "raw": r["spelling"][3], "server": op == "server"}
    return {"nontrivial": nontrivial, "classes": sorted(set(classes))}


def shard(ctx):
    ctx.hyp_run(strategy(), max_examples=ctx.pick(150, 2000))
