"""C07 - filter_args binds parameters exactly as Python does.

Exhaustive enumeration of every signature with <= N parameters (N=5 quick,
6 thorough) x every call shape x {function, bound method} x every ignore list
of size <= 2 over the keys present; oracle = the binding the interpreter itself performs (functions return their locals).
Thorough adds Hypothesis-sampled signatures with 7-8 parameters.
"""

import itertools
import os

from ..core import Violation
from ..engines import sigs as S

PROPERTY_ID = "C07"
LEVEL = "exploration"
RULE = (
    "enumeration: all signatures with <=5 (quick) / <=6 (thorough) parameters over kinds "
    "{positional-only, positional-or-keyword, *args, keyword-only, **kwargs} x default/no default, "
    "all call shapes (n positional incl. surplus for *args, remaining by keyword or omitted, 0-2 surplus "
    "keywords for **kwargs incl. one spelled like a positional-only parameter and, for methods with a positional-only self, one spelled 'self'), carriers function, bound "
    "method and 'twin' (a second function object built from the same code object with other default values, examined after its sibling), every ignore list of size <=2 over the keys of the expected mapping; calls Python rejects "
    "(TypeError) are skipped.  evaluations = filter_args results compared.  A case is non-trivial when the signature has >=2 "
    "parameter kinds or a default AND the call omits or keyword-passes >=1 parameter; distinct = (signature, call, "
    "carrier, ignore list)."
)
ASSUMPTIONS = [
    "the interpreter itself is the reference for binding: generated functions return dict(locals()) (inspect.Signature.bind of 3.12 wrongly rejects a keyword named like a positional-only parameter)",
    "argument values are distinct string sentinels, so any mis-binding is visible",
    "ignore lists only name keys that exist (unknown names are documented to raise ValueError)",
]
SHARDS = {"quick": 16, "thorough": 16}


def signature(spec):
    sig = spec["sig"]
    kinds = [k for k, _ in sig]
    feats = []
    if "po" in kinds:
        feats.append("posonly")
    if "va" in kinds and "ko" in kinds:
        feats.append("varargs+kwonly")
    # a defaulted parameter followed (anywhere) by a required keyword-only one
    seen_def = False
    for k, d in sig:
        if d:
            seen_def = True
        elif k == "ko" and seen_def:
            feats.append("default-before-required-kwonly")
            break
    return feats


def _nontrivial(sig, call):
    kinds = set(k for k, _ in sig)
    has_def = any(d for _, d in sig)
    n_named = sum(1 for k, _ in sig if k in ("po", "pk", "ko"))
    n_pos_named = sum(1 for k, _ in sig if k in ("po", "pk"))
    passed_pos = min(call["npos"], n_pos_named)
    omitted_or_kw = n_named - passed_pos
    return (len(kinds) >= 2 or has_def) and omitted_or_kw >= 1


def _ignore_lists(keys, maxn=2):
    keys = sorted(keys)
    yield []
    for n in range(1, maxn + 1):
        for c in itertools.combinations(keys, n):
            yield list(c)


def check_binding(func, sig, call, carrier, ignore):
    from joblib.func_inspect import filter_args

    args, kwargs = S.call_args(call)
    exp = S.expected_binding(func, args, kwargs)
    if exp is None:
        return None  # python rejects the call: outside the domain
    for k in ignore:
        if k not in exp:
            return None
        exp.pop(k)
    try:
        got = filter_args(func, list(ignore), args, dict(kwargs))
    except Exception as e:
        raise Violation(
            "filter_args raised %s: %s for def f(%s) called with args=%r kwargs=%r ignore=%r (carrier=%s); Python binds %r"
            % (type(e).__name__, str(e).splitlines()[0] if str(e) else "", S.sig_source(sig), args, kwargs, ignore, carrier, _show(exp))
        )
    if got != exp:
        raise Violation(
            "filter_args(def f(%s), ignore=%r, args=%r, kwargs=%r) [carrier=%s] = %r but Python binds %r"
            % (S.sig_source(sig), ignore, args, kwargs, carrier, _show(got), _show(exp))
        )
    return True


def _show(d):
    return {k: (v if isinstance(v, (str, list, dict, tuple)) else "<self>") for k, v in d.items()}


_cache = {}


def _twin(f):
    """Another function object made from the SAME code object with other default values (what a closure factory or a
    loop of lambdas produces): the signature of a function is not a property of its code object."""
    import types
    if not (f.__defaults__ or f.__kwdefaults__):
        return None
    t = types.FunctionType(f.__code__, f.__globals__, f.__name__, tuple("e" + d[1:] for d in (f.__defaults__ or ())) or None, f.__closure__)
    if f.__kwdefaults__:
        t.__kwdefaults__ = {k: "e" + v[1:] for k, v in f.__kwdefaults__.items()}
    return t


def _funcs_for(sig, scratch):
    key = repr(sig)
    if key not in _cache:
        _, funcs, meths, _ = S.build_module([sig], scratch)
        _cache[key] = (funcs[0], meths[0], _twin(funcs[0]))
    return _cache[key]


def run_case(spec):
    scratch = os.environ.get("VF_SCRATCH", "/tmp")
    f, m, t = _funcs_for(spec["sig"], scratch)
    func = {"f": f, "m": m, "t": t}[spec["carrier"]]
    if spec["carrier"] == "t":
        # the twin is looked at after its sibling, as in the enumeration
        from joblib.func_inspect import filter_args
        a0, k0 = S.call_args(spec["call"])
        try:
            filter_args(f, [], a0, dict(k0))
        except Exception:
            pass
    r = check_binding(func, spec["sig"], spec["call"], spec["carrier"], spec["ignore"])
    if r is None:
        return {"nontrivial": False, "classes": ["rejected-by-bind"]}
    return {"nontrivial": _nontrivial(spec["sig"], spec["call"])}


def shard(ctx):
    maxp = ctx.pick(5, 6)
    sigs = S.enum_signatures(maxp)
    mine = [s for i, s in enumerate(sigs) if ctx.mine(i)]
    _, funcs, meths, _ = S.build_module(mine, ctx.scratch)
    st = ctx.stats
    for sig, f, m in zip(mine, funcs, meths):
        calls = S.enum_calls(sig)
        kinds = [k for k, _ in sig]
        # bound methods whose `self` is positional-only: a surplus keyword spelled 'self' goes to **kwargs
        self_kw = [dict(c, extra=c["extra"] + ["self"]) for c in calls if len(c["extra"]) < 2] if ("vk" in kinds and "po" in kinds) else []
        for call in calls + self_kw:
            for carrier, func in (("f", f), ("m", m), ("t", _twin(f))):
                if func is None or ("self" in call["extra"] and carrier != "m"):
                    continue
                args, kwargs = S.call_args(call)
                exp = S.expected_binding(func, args, kwargs)
                if exp is None:
                    st.count("rejected-by-bind")
                    continue
                for ign in _ignore_lists(exp.keys()):
                    spec = {"sig": sig, "call": call, "carrier": carrier, "ignore": ign}
                    ctx.run_one(spec, case_fn=lambda sp, func=func: _enum_case(func, sp))
    st.extra["exhaustive"] = True
    st.extra["n_signatures_enumerated"] = len(mine)
    st.extra["max_params_exhaustive"] = maxp
    if ctx.thorough:
        _sampled(ctx)


def _enum_case(func, spec):
    r = check_binding(func, spec["sig"], spec["call"], spec["carrier"], spec["ignore"])
    if r is None:
        return {"nontrivial": False, "classes": ["rejected-by-bind"]}
    return {"nontrivial": _nontrivial(spec["sig"], spec["call"]),
            "classes": ["carrier=" + spec["carrier"], "ignore=%d" % len(spec["ignore"])]}


# ---- thorough: sampled larger signatures -------------------------------------

def _sig_strategy(min_p, max_p):
    from hypothesis import strategies as st

    @st.composite
    def sig(draw):
        n = draw(st.integers(min_p, max_p))
        va = draw(st.booleans())
        vk = draw(st.booleans())
        rest = n - va - vk
        npo = draw(st.integers(0, rest))
        npk = draw(st.integers(0, rest - npo))
        nko = rest - npo - npk
        npos = npo + npk
        ndef = draw(st.integers(0, npos))
        out = []
        for i in range(npo):
            out.append(["po", int(i >= npos - ndef)])
        for i in range(npo, npos):
            out.append(["pk", int(i >= npos - ndef)])
        if va:
            out.append(["va", 0])
        for _ in range(nko):
            out.append(["ko", int(draw(st.booleans()))])
        if vk:
            out.append(["vk", 0])
        calls = S.enum_calls(out)
        call = draw(st.sampled_from(calls))
        carrier = draw(st.sampled_from(["f", "m"]))
        # ignore list over possible keys
        names = [n for (k, _), n in zip(out, S.param_names(out)) if k in ("po", "pk", "ko")]
        keys = names + (["*"] if va else []) + (["**"] if vk else []) + (["self"] if carrier == "m" else [])
        ign = draw(st.lists(st.sampled_from(keys), max_size=3, unique=True)) if keys else []
        return {"sig": out, "call": call, "carrier": carrier, "ignore": sorted(ign)}

    return sig()


def _sampled(ctx):
    ctx.hyp_run(_sig_strategy(7, 8), max_examples=1500, label="sampled-7-8")
