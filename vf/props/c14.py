"""C14 - truncated or over-long files make load fail cleanly: never hang, never lie."""

import gc
import io
import json
import os
import random
import shutil
import signal

from hypothesis import strategies as st

from ..core import Inconclusive, Violation
from ..engines import persist as PS
from ..engines import values as V

PROPERTY_ID = "C14"
LEVEL = "fault_enumeration"
RULE = (
    "Hypothesis draws (object spec as in C03 incl. payloads around 8 KiB/64 KiB/1 MiB, compressor zlib|gzip|bz2|lzma|xz|raw, "
    "level, protocol 0..5), plus zlib/gzip files of incompressible data whose length is aligned to k*8192-2..k*8192+10 (the last raw "
    "refill block then holds only part of the stream trailer).  For each resulting joblib file EVERY truncation length 0..len-1 is loaded when len <= 600 "
    "(exhaustive), otherwise the boundary set {0..12, 8192*i+-1, 2**16+-1, 2**20+-1, len-12..len-1} plus 20 seeded offsets; and "
    "the suffix extensions {1 zero byte, 1..64 seeded random bytes, the file's own magic, a copy of itself, another valid "
    "joblib file with a different compressor}.  Mode npfile (numpy from .deps): 1-2 arrays of u1/i4/u8/f8/c16/S3/bool (either byte order, 0..70000 "
    "elements, C or F) alone or inside a list/dict, every compressor, optionally loaded with mmap_mode='r'; truncations as above plus a dense "
    "window over the first 400 bytes and 40 seeded offsets (array header, alignment padding and raw payload are read outside the pickle stream).  Every damaged file is loaded from BytesIO and from a path under a 20 s "
    "alarm (normal < 50 ms): it must raise an Exception or return a value deep-equal to the original.  Memory cases: the "
    "same damage applied to output.pkl of a cache entry, then the cached call must return the correct value without "
    "raising.  evaluations = files (objects x configs) and Memory entries damaged; n_damaged_loads counts single loads.  "
    "Non-trivial file: >= 1 truncation strictly inside the stream and >= 1 non-empty suffix were loaded and the object has "
    "a container; distinct = hash of (object, config)."
)
ASSUMPTIONS = [
    "returning the original object from a damaged file is allowed (e.g. truncation inside a trailing checksum)",
    "a 20 s alarm, confirmed by a 60 s re-run, decides 'never terminates' (normal latency is below 50 ms)",
    "numpy arrays: plain numeric/bytes dtypes only (mode npfile); the full dtype x layout universe is C19's",
]
NEEDS = {"deps"}          # numpy from the offline wheelhouse (array payloads are read by a separate code path)
SHARDS = {"quick": 8, "thorough": 16}
ALARM = 20.0


class _Timeout(BaseException):
    pass


def _on_alarm(signum, frame):
    raise _Timeout()


def strategy():
    filecase = st.fixed_dictionaries({
        "mode": st.just("file"),
        "obj": st.one_of(PS.objects(max_leaves=8),
                         st.tuples(PS.objects(max_leaves=4), V.big_payloads()).map(lambda t: ["list", [t[0], t[1]]])),
        "method": st.sampled_from(["raw", "zlib", "gzip", "bz2", "lzma", "xz", "zlib", "gzip"]),
        "level": st.sampled_from([None, 1, 3, 6, 9]),
        "protocol": st.sampled_from([None, 0, 1, 2, 3, 4, 5]),
        "tseed": st.integers(0, 10 ** 6),
    })
    memcase = st.fixed_dictionaries({
        "mode": st.just("memory"),
        "payload": st.tuples(st.sampled_from([0, 10, 500, 8192, 20000, 70000]) | st.integers(0, 3000),
                             st.sampled_from(["zeros", "pattern", "rand"]), st.integers(0, 100)).map(list),
        "compress": st.sampled_from([False, True, 1, 9]),
        "tseed": st.integers(0, 10 ** 6),
    })
    # files whose compressed length is r bytes past a multiple of the 8192-byte refill block, so that the last raw block
    # holds only (part of) the stream trailer
    boundary = st.fixed_dictionaries({
        "mode": st.just("file"),
        "obj": st.tuples(st.just("bytesgen"), st.integers(5000, 20000), st.just("rand"), st.integers(0, 1000)).map(list),
        "method": st.sampled_from(["zlib", "gzip"]),
        "level": st.sampled_from([1, 3, 9]),
        "protocol": st.sampled_from([None, 2, 4]),
        "tseed": st.integers(0, 10 ** 6),
        "align": st.tuples(st.integers(1, 2), st.integers(-2, 10)).map(list),
    })
    # joblib files holding numpy arrays: the raw array bytes are read by their own routine, outside the pickle stream
    npcase = st.fixed_dictionaries({
        "mode": st.just("npfile"),
        "arrays": st.lists(st.tuples(st.sampled_from(["u1", "<i4", ">i4", "<u8", "<f8", ">f8", "c16", "S3", "?"]),
                                     st.one_of(st.integers(0, 40), st.sampled_from([1000, 2047, 2048, 8192, 70000])),
                                     st.sampled_from(["C", "F2"])).map(list), min_size=1, max_size=2),
        "wrap": st.sampled_from(["alone", "list", "dict"]),
        "method": st.sampled_from(["raw", "raw", "zlib", "gzip", "bz2", "lzma", "xz"]),
        "level": st.sampled_from([None, 1, 3, 9]),
        "protocol": st.sampled_from([None, 2, 4, 5]),
        "mmap": st.booleans(),
        "tseed": st.integers(0, 10 ** 6),
    })
    return st.integers(0, 6).flatmap(lambda i: memcase if i == 0 else boundary if i == 1 else npcase if i == 2 else filecase)


def _truncations(n, tseed):
    if n <= 600:
        return list(range(n)), True
    pts = set(range(0, 13)) | set(range(n - 12, n))
    i = 1
    while 8192 * i - 1 < n:
        pts.update((8192 * i - 1, 8192 * i, 8192 * i + 1))
        i += 1
    for b in (2 ** 16, 2 ** 20):
        pts.update((b - 1, b, b + 1))
    rnd = random.Random(tseed)
    for _ in range(20):
        pts.add(rnd.randrange(n))
    return sorted(p for p in pts if 0 <= p < n), False


def _extensions(data, tseed, other):
    rnd = random.Random(tseed + 1)
    magic = data[:6]
    return [
        ("zero", b"\0"),
        ("rand%d" % 1, rnd.randbytes(1)),
        ("rand", rnd.randbytes(rnd.randrange(2, 65))),
        ("magic", magic),
        ("self", data),
        ("other", other),
    ]


def prepare(ctx):
    """An endless refill loop doubles `unused_data` on every turn: cap the address
    space so that a runaway load ends in MemoryError instead of eating the machine."""
    import logging
    import resource

    logging.disable(logging.CRITICAL)
    lim = 2 * 2 ** 30
    resource.setrlimit(resource.RLIMIT_AS, (lim, lim))


def _runaway(spec, what, exc):
    spec["only"] = what
    return Violation("load of a damaged file (%s) exhausted a 2 GiB address space (%s) - a runaway loop, the file is tiny; method=%s "
                     "protocol=%r" % (what, type(exc).__name__, spec.get("method", "memory-entry"), spec.get("protocol")),
                     signature=_sig(spec, what))


def _load_guarded(joblib, src, orig, what, spec, eq=None, mmap_mode=None):
    """Load once under an alarm.  Returns 'raised' / 'original'."""
    eq = eq or V.deep_eq
    signal.signal(signal.SIGALRM, _on_alarm)
    for limit in (ALARM, 60.0):
        runaway = False
        signal.setitimer(signal.ITIMER_REAL, limit)
        try:
            try:
                back = joblib.load(src() if callable(src) else src, mmap_mode=mmap_mode)
            finally:
                signal.setitimer(signal.ITIMER_REAL, 0)
        except _Timeout:
            if limit == ALARM:
                continue  # confirm with the longer limit
            spec["only"] = what
            raise Violation("load of a damaged file (%s) did not terminate within 60 s (normal < 50 ms); method=%s protocol=%r"
                            % (what, spec.get("method"), spec.get("protocol")), signature=_sig(spec, what))
        except MemoryError:
            runaway = True
        except Exception:
            return "raised"
        if runaway:
            # raised outside the except block so that no traceback keeps the
            # multi-GiB buffers of the runaway loop alive
            gc.collect()
            raise _runaway(spec, what, MemoryError())
        why = eq(orig, back)
        if why:
            spec["only"] = what
            raise Violation("load of a damaged file (%s) returned a different object: %s; method=%s protocol=%r obj=%s"
                            % (what, why, spec.get("method"), spec.get("protocol"), json.dumps(spec.get("obj"))[:300]),
                            signature=_sig(spec, what))
        return "original"


def _sig(spec, what):
    kind = what[0] if isinstance(what, (list, tuple)) else what
    if kind == "ext":
        return ["suffix", "zlib-family" if spec.get("method") in ("zlib", "gzip") or spec.get("mode") == "memory" else spec.get("method")]
    return None


def signature(spec):
    return None


def _np_build(spec):
    import numpy as np

    arrs = []
    for i, (dt, n, order) in enumerate(spec["arrays"]):
        raw = random.Random(spec["tseed"] * 7 + i).randbytes(max(n, 1) * (3 if dt == "S3" else 1))[: n * (3 if dt == "S3" else 1)]
        if dt == "S3":
            a = np.frombuffer(bytes(32 + b % 90 for b in raw), dtype="S3").copy()
        elif dt == "?":
            a = (np.frombuffer(raw, dtype="u1") % 2).astype("?")
        else:
            a = np.frombuffer(raw, dtype="u1").astype(dt)     # small exact values in every numeric dtype
        if order == "F2" and n >= 2 and n % 2 == 0:
            a = np.asfortranarray(a.reshape(2, n // 2))
        arrs.append(a)
    if spec["wrap"] == "alone":
        return arrs[0]
    if spec["wrap"] == "list":
        return ["head", *arrs, "tail \u20ac", 12345]
    return {"k%d" % i: a for i, a in enumerate(arrs)} | {"tail": ("x", 1.5)}


def _np_eq(a, b, path="$"):
    """None when equal (dtype modulo byte order - the default load converts to native -, shape, order, element values)."""
    import numpy as np

    if isinstance(a, np.ndarray):
        if not isinstance(b, np.ndarray):
            return "%s: %s instead of an ndarray" % (path, type(b).__name__)
        if a.dtype.newbyteorder("=") != b.dtype.newbyteorder("=") or a.shape != b.shape:
            return "%s: dtype/shape %s%s != %s%s" % (path, b.dtype, b.shape, a.dtype, a.shape)
        nat = a.dtype.newbyteorder("=")
        if a.astype(nat).tobytes() != np.asarray(b).astype(nat).tobytes():
            return "%s: element values differ" % path
        return None
    if type(a) is not type(b):
        return "%s: type %s != %s" % (path, type(b).__name__, type(a).__name__)
    if isinstance(a, (list, tuple)):
        if len(a) != len(b):
            return "%s: length %d != %d" % (path, len(b), len(a))
        for i, (x, y) in enumerate(zip(a, b)):
            r = _np_eq(x, y, "%s[%d]" % (path, i))
            if r:
                return r
        return None
    if isinstance(a, dict):
        if list(a) != list(b):
            return "%s: keys differ" % path
        for k in a:
            r = _np_eq(a[k], b[k], "%s[%r]" % (path, k))
            if r:
                return r
        return None
    return None if a == b else "%s: %r != %r" % (path, b, a)


def _run_npfile(spec):
    import joblib

    scratch = os.environ.get("VF_SCRATCH", "/tmp")
    obj = _np_build(spec)
    comp = 0 if spec["method"] == "raw" else (spec["method"], spec["level"])
    buf = io.BytesIO()
    joblib.dump(obj, buf, compress=comp, protocol=spec["protocol"])
    data = buf.getvalue()
    truncs, exhaustive = _truncations(len(data), spec["tseed"])
    if not exhaustive:
        # the array header / padding / payload boundaries are not at fixed offsets: add a dense window after each pickled
        # array wrapper (found by its class name in the uncompressed file) and a sample across the payload
        rnd = random.Random(spec["tseed"] + 2)
        pts = set(truncs) | {rnd.randrange(len(data)) for _ in range(40)} | set(range(0, min(len(data), 400), 3))
        truncs = sorted(pts)
    other = io.BytesIO()
    joblib.dump(["other", 1], other, compress=("bz2", 3) if spec["method"] != "bz2" else ("zlib", 3))
    exts = _extensions(data, spec["tseed"], other.getvalue())
    suffixes = dict(exts)
    only = spec.get("only")
    path = os.path.join(scratch, "c14-np-%d.bin" % os.getpid())
    n_loads, interior = 0, False
    outcomes = {"raised": 0, "original": 0}
    use_mmap = spec["mmap"] and spec["method"] == "raw"

    try:
        for what in [["trunc", k] for k in truncs] + [["ext", name] for name, _ in exts]:
            if only is not None and list(only) != list(what):
                continue
            dmg = data[:what[1]] if what[0] == "trunc" else data + suffixes[what[1]]
            r = _load_guarded(joblib, lambda: io.BytesIO(dmg), obj, what, spec, eq=_np_eq)
            outcomes[r] += 1
            n_loads += 1
            if what[0] == "trunc" and 0 < what[1] < len(data):
                interior = True
            if what[0] == "ext" or what[1] % 5 == 0 or only is not None:
                with open(path, "wb") as f:
                    f.write(dmg)
                r = _load_guarded(joblib, path, obj, what, spec, eq=_np_eq, mmap_mode="r" if use_mmap else None)
                outcomes[r] += 1
                n_loads += 1
    finally:
        if os.path.exists(path):
            os.unlink(path)
    _STATS["n_damaged_loads"] = _STATS.get("n_damaged_loads", 0) + n_loads
    classes = ["numpy-arrays", "method=" + spec["method"], "exhaustive-truncation" if exhaustive else "boundary-truncation"]
    if use_mmap:
        classes.append("mmap_mode=r")
    if outcomes["original"]:
        classes.append("some-damage-still-returned-original")
    return {"nontrivial": interior and only is None, "classes": classes}


def run_case(spec):
    import joblib

    if spec["mode"] == "memory":
        return _run_memory(spec)
    if spec["mode"] == "npfile":
        return _run_npfile(spec)
    scratch = os.environ.get("VF_SCRATCH", "/tmp")
    obj = V.build(spec["obj"])
    comp = 0 if spec["method"] == "raw" else (spec["method"], spec["level"])

    def dumped(o):
        b = io.BytesIO()
        joblib.dump(o, b, compress=comp, protocol=spec["protocol"])
        return b.getvalue()
    data = dumped(obj)
    if spec.get("align"):
        # incompressible payload: the file grows by one byte per payload byte, adjust until len == blocks*8192 + r
        blocks, r = spec["align"]
        want = blocks * 8192 + r
        n = spec["obj"][1]
        for _ in range(6):
            if len(data) == want:
                break
            n = max(1, n + (want - len(data)))
            obj = V.gen_bytes(n, "rand", spec["obj"][3])
            data = dumped(obj)
        if len(data) != want:
            raise Inconclusive("could not align the file length")
    other = io.BytesIO()
    joblib.dump(["other", 1], other, compress=("bz2", 3) if spec["method"] != "bz2" else ("zlib", 3))
    truncs, exhaustive = _truncations(len(data), spec["tseed"])
    exts = _extensions(data, spec["tseed"], other.getvalue())
    only = spec.get("only")
    path = os.path.join(scratch, "c14-%d.bin" % os.getpid())
    n_loads = 0
    outcomes = {"raised": 0, "original": 0}
    interior = False
    try:
        # lazily: a 1 MiB object pickled with protocol 0 is several MiB and has hundreds of truncation points
        damages = [["trunc", k] for k in truncs] + [["ext", name] for name, _ in exts]
        suffixes = dict(exts)
        for what in damages:
            if only is not None and list(only) != list(what):
                continue
            dmg = data[:what[1]] if what[0] == "trunc" else data + suffixes[what[1]]
            r = _load_guarded(joblib, lambda: io.BytesIO(dmg), obj, what, spec)
            outcomes[r] += 1
            n_loads += 1
            if what[0] == "trunc" and 0 < what[1] < len(data):
                interior = True
            # from a path: every extension, and a thinned set of truncations
            if what[0] == "ext" or what[1] % 7 == 0 or only is not None:
                with open(path, "wb") as f:
                    f.write(dmg)
                r = _load_guarded(joblib, path, obj, what, spec)
                outcomes[r] += 1
                n_loads += 1
    finally:
        if os.path.exists(path):
            os.unlink(path)
    _STATS["n_damaged_loads"] = _STATS.get("n_damaged_loads", 0) + n_loads
    _STATS["n_files_exhaustive"] = _STATS.get("n_files_exhaustive", 0) + int(exhaustive)
    has_container = any(n[0] in ("tuple", "list", "dict", "set", "frozenset", "obj") for _, n in V.nodes(spec["obj"]))
    classes = ["method=" + spec["method"], "exhaustive-truncation" if exhaustive else "boundary-truncation"]
    if spec.get("align"):
        classes.append("length=k*8192%+d" % spec["align"][1])
    if outcomes["original"]:
        classes.append("some-damage-still-returned-original")
    return {"nontrivial": has_container and interior and only is None, "classes": classes}


_STATS = {}


def _run_memory(spec):
    import joblib
    from vf import tasks

    scratch = os.environ.get("VF_SCRATCH", "/tmp")
    loc = os.path.join(scratch, "c14-mem-%d" % os.getpid())
    shutil.rmtree(loc, ignore_errors=True)
    n_loads = 0
    try:
        args = tuple(spec["payload"])
        expected = tasks.payload(*args)
        mem = joblib.Memory(loc, compress=spec["compress"], verbose=0)
        f = mem.cache(tasks.payload)
        if f(*args) != expected:
            raise Violation("cold cached call returned a wrong value")
        outs = []
        for root, _, files in os.walk(loc):
            if "output.pkl" in files:
                outs.append(os.path.join(root, "output.pkl"))
        if len(outs) != 1:
            raise Inconclusive("expected one output.pkl, found %d" % len(outs))
        with open(outs[0], "rb") as fh:
            data = fh.read()
        truncs, exhaustive = _truncations(len(data), spec["tseed"])
        if len(truncs) > 60:
            rnd = random.Random(spec["tseed"])
            truncs = sorted(set(truncs[:8] + truncs[-8:] + rnd.sample(truncs, 40)))
        exts = _extensions(data, spec["tseed"], b"garbage-not-a-pickle")
        only = spec.get("only")
        damages = [(["trunc", k], data[:k]) for k in truncs] + [(["ext", name], data + sfx) for name, sfx in exts]
        signal.signal(signal.SIGALRM, _on_alarm)
        for what, dmg in damages:
            if only is not None and list(only) != list(what):
                continue
            os.makedirs(os.path.dirname(outs[0]), exist_ok=True)
            with open(outs[0], "wb") as fh:
                fh.write(dmg)
            mem2 = joblib.Memory(loc, compress=spec["compress"], verbose=0)
            g = mem2.cache(tasks.payload)
            signal.setitimer(signal.ITIMER_REAL, 60.0)
            runaway = False
            try:
                try:
                    got = g(*args)
                finally:
                    signal.setitimer(signal.ITIMER_REAL, 0)
            except _Timeout:
                spec["only"] = what
                raise Violation("cached call on a damaged entry (%s, compress=%r) did not terminate within 60 s" % (what, spec["compress"]),
                                signature=_sig(spec, what))
            except MemoryError:
                runaway = True
            except Exception as e:
                spec["only"] = what
                raise Violation("cached call on a damaged entry (%s, compress=%r) raised %s: %s" % (what, spec["compress"], type(e).__name__, e))
            if runaway:
                gc.collect()
                raise _runaway(spec, what, MemoryError())
            n_loads += 1
            if got != expected:
                spec["only"] = what
                raise Violation("cached call on a damaged entry (%s, compress=%r) returned a wrong value" % (what, spec["compress"]))
    finally:
        shutil.rmtree(loc, ignore_errors=True)
    _STATS["n_damaged_loads"] = _STATS.get("n_damaged_loads", 0) + n_loads
    return {"nontrivial": only is None, "classes": ["memory-entry", "compress=%r" % spec["compress"]]}


def shard(ctx):
    import warnings

    warnings.simplefilter("ignore")
    ctx.hyp_run(strategy(), max_examples=ctx.pick(100, 1200), shrink=True)
    ctx.stats.extra.update(_STATS)
