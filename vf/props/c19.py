"""C19 - numpy arrays persist bit-exactly and memory-map faithfully."""

import hashlib
import io
import json
import os
import shutil
import signal
import warnings

from hypothesis import strategies as st

from ..core import HarnessError, Inconclusive, Violation

PROPERTY_ID = "C19"
LEVEL = "exploration"
RULE = (
    "Runs with numpy from /verif/.deps.  Hypothesis draws an array spec: dtype from {bool, (u)int8..64, float16..64, complex, "
    "datetime64/timedelta64 units, S/U strings, void, structured (mixed-endian, nested, aligned, sub-array fields), object} x "
    "byte order x shape (0-d, zero-length dimensions, 1..4-d, up to ~4000 elements plus a few around the 2**18-byte chunk) x "
    "layout {C, F, strided slice, negative stride, transposed, broadcast, memmap-backed incl. offset/slices/transposes of "
    "memmaps} x subclass {ndarray, matrix, harness subclass, memmap} x nesting (alone, twice in a list, dict/tuple); and a "
    "configuration: (a) dump/load under every compressor / protocol 2..5 / path|file object|BytesIO with "
    "ensure_native_byte_order False and default; (b) load with mmap_mode r|r+|c|w+ from an uncompressed path; (c) "
    "Parallel(n_jobs=2, backend loky|multiprocessing, max_nbytes in {None, 0, nbytes-1, nbytes, nbytes+1, '1K'}, mmap_mode "
    "r|r+|c) whose tasks report dtype/shape/flags/sha1 of what they received.  Oracle: identical dtype, shape, "
    "F-contiguity iff the original was F- and not C-contiguous, identical element bytes (NaN-safe, object arrays compared "
    "element-wise); default load: the same modulo the documented conversion to native byte order; mmap loads are np.memmap "
    "on the file, aligned for their dtype (address % dtype.alignment == 0 and flags.aligned), read-only for 'r', and the file bytes at [offset, offset+nbytes) are the array's bytes; "
    "workers see the same values, as a memmap when above the threshold.  Non-trivial: non-native byte order, "
    "non-contiguous/F/memmap-backed layout, structured/object dtype, 0-d/empty shape, or nbytes within +-1 of max_nbytes.  "
    "distinct = hash of the case."
)
ASSUMPTIONS = [
    "the default load converts to native byte order (documented); subclass identity is recorded, not judged",
    "array contents are built from seeded random bytes viewed as the dtype (so NaN payloads, NaT, denormals occur)",
    "numpy 2.x from the offline wheelhouse; legacy (<0.10) files are not generated",
    "ndarray subclasses that joblib does not intercept (only ndarray/matrix/memmap are) and arrays sent to workers below the memmapping threshold travel through numpy's own pickling, which does not preserve byte order: there values are judged, byte order is not",
]
NEEDS = {"deps"}
SHARDS = {"quick": 8, "thorough": 16}
TIMEOUT = {"quick": 900, "thorough": 3600}

SIMPLE = ["?", "i1", "u1", "i2", "u2", "i4", "u4", "i8", "u8", "f2", "f4", "f8", "c8", "c16", "M8[s]", "M8[ns]", "m8[D]", "S3", "U2", "V5"]
STRUCTS = [
    [["a", "<i4"], ["b", ">f8"]],
    [["a", ">i4"], ["b", "<f8"]],
    [["x", "u1"], ["y", "S3"], ["z", "<f4", [2]]],
    [["p", ">u2"], ["q", [["r", "<i8"], ["s", ">c8"]]]],
    [["m", "<M8[s]"], ["n", ">U2"]],
]


def strategy():
    dtype = st.one_of(
        st.tuples(st.just("simple"), st.sampled_from(SIMPLE), st.sampled_from(["=", "<", ">"])).map(list),
        st.tuples(st.just("struct"), st.integers(0, len(STRUCTS) - 1), st.booleans()).map(list),
        st.just(["object"]),
    )
    shape = st.one_of(st.just([]), st.lists(st.integers(0, 6), min_size=1, max_size=4),
                      st.lists(st.integers(1, 12), min_size=1, max_size=3), st.sampled_from([[2 ** 15 + 1], [181, 181], [2 ** 16]]))
    arr = st.fixed_dictionaries({
        "dtype": dtype, "shape": shape, "seed": st.integers(0, 10 ** 6),
        "layout": st.sampled_from(["C", "F", "slice", "neg", "T", "broadcast", "memmap", "memmap_off", "memmap_slice", "memmap_T", "memmap_neg",
                                    "memmap_view", "memmap_bytes", "memmap_field"]),
        "sub": st.sampled_from([None, None, None, "matrix", "custom"]),
        "nest": st.sampled_from([None, None, "list2", "dict", "tuple"]),
    })
    persist = st.fixed_dictionaries({
        "mode": st.just("persist"), "arr": arr,
        "compress": st.sampled_from([0, 0, 1, 3, ["zlib", 3], ["gzip", 1], ["bz2", 3], ["lzma", 1], ["xz", 1]]),
        "protocol": st.sampled_from([None, 2, 3, 4, 5]), "target": st.sampled_from(["path", "fileobj", "bytesio"]),
    })
    mm = st.fixed_dictionaries({"mode": st.just("mmap"), "arr": arr, "mmap_mode": st.sampled_from(["r", "r+", "c", "w+"]),
                                "protocol": st.sampled_from([None, 2, 4, 5])})
    par = st.fixed_dictionaries({
        "mode": st.just("parallel"), "arr": arr, "backend": st.sampled_from(["loky", "loky", "multiprocessing"]),
        "max_nbytes": st.sampled_from([None, 0, "n-1", "n", "n+1", "1K"]), "mmap_mode": st.sampled_from(["r", "r+", "c"]),
    })
    return st.integers(0, 9).flatmap(lambda i: persist if i < 5 else mm if i < 7 else par)


def signature(spec):
    return None


# ---- building arrays --------------------------------------------------------------------------

def _np_dtype(np, d):
    if d[0] == "simple":
        code, order = d[1], d[2]
        dt = np.dtype(code)
        if order != "=" and dt.itemsize > 1 and dt.kind not in "SV":
            dt = dt.newbyteorder(order)
        return dt
    if d[0] == "struct":
        def conv(fields):
            out = []
            for f in fields:
                name, t = f[0], f[1]
                t = conv(t) if isinstance(t, list) else t
                out.append((name, t) if len(f) == 2 else (name, t, tuple(f[2])))
            return out
        return np.dtype(conv(STRUCTS[d[1]]), align=bool(d[2]))
    return np.dtype("O")


class _Sub:
    cls = None


def _custom_cls(np):
    if _Sub.cls is None:
        from vf import nparr
        _Sub.cls = nparr.CustomArray
    return _Sub.cls


def build_array(np, a, scratch):
    import random
    dt = _np_dtype(np, a["dtype"])
    shape = tuple(a["shape"])
    layout = a["layout"]
    rnd = random.Random(a["seed"])
    if len(shape) == 0 and layout not in ("C", "memmap"):
        layout = "C"
    # base shape so that the derived view has `shape`
    if layout in ("slice", "memmap_slice"):
        bshape = shape[:-1] + (shape[-1] * 2,)
    elif layout in ("T", "memmap_T"):
        bshape = shape[::-1]
    elif layout == "broadcast":
        bshape = (1,) + shape[1:]
    elif layout == "memmap_off":
        bshape = (shape[0] + 2,) + shape[1:]
    else:
        bshape = shape
    n = 1
    for s in bshape:
        n *= s
    if dt.hasobject:
        pool = [None, 1, "a", (1, 2), 2.5, b"x", [1], {"k": 1}]
        base = np.empty(bshape, dtype=object)
        flat = base.reshape(-1)
        for i in range(n):
            flat[i] = pool[rnd.randrange(len(pool))]
    elif dt.kind == "b":
        base = np.frombuffer(bytes(rnd.randrange(2) for _ in range(n)), dtype=dt).reshape(bshape).copy()
    elif dt.kind == "U":
        base = np.array(["".join(rnd.choice("abé") for _ in range(rnd.randrange(3))) for _ in range(n)], dtype=dt).reshape(bshape)
    else:
        raw = rnd.randbytes(n * dt.itemsize)
        base = np.frombuffer(raw, dtype=dt).reshape(bshape).copy()
    if layout.startswith("memmap"):
        if dt.hasobject:
            layout = "C"
        else:
            path = os.path.join(scratch, "c19-%d-src.mmap" % os.getpid())
            off = 0 if layout != "memmap_off" else 24
            mm = np.memmap(path, dtype=dt, mode="w+", shape=bshape if bshape else (1,), offset=off)
            mm[...] = base if bshape else base.reshape(1)
            mm.flush()
            del mm
            base = np.memmap(path, dtype=dt, mode="r+", shape=bshape if bshape else (1,), offset=off)
            if not bshape:
                base = base[0:1].reshape(())
    if layout == "F":
        arr = np.asfortranarray(base)
    elif layout in ("slice", "memmap_slice"):
        arr = base[..., ::2]
    elif layout in ("neg", "memmap_neg"):
        arr = base[::-1]
    elif layout in ("T", "memmap_T"):
        arr = base.T
    elif layout == "broadcast":
        arr = np.broadcast_to(base, shape)
    elif layout == "memmap_off":
        arr = base[2:]
    elif layout == "memmap_view" and isinstance(base, np.memmap) and base.ndim >= 1 and not dt.names and dt.itemsize in (1, 2, 4, 8):
        # the same bytes seen through another dtype of the same item size: the view's dtype differs from its backing memmap's
        arr = base.view({1: "i1", 2: "<u2", 4: "<u4", 8: "<i8"}[dt.itemsize] if dt.kind != "i" else {1: "u1", 2: "<f2", 4: "<f4", 8: "<f8"}[dt.itemsize])
    elif layout == "memmap_bytes" and isinstance(base, np.memmap) and base.ndim == 1 and base.size >= 2 and not dt.names:
        arr = base.view(np.uint8)[dt.itemsize:]
    elif layout == "memmap_field" and isinstance(base, np.memmap) and dt.names:
        arr = base[dt.names[0]]
    else:
        arr = base
    if a["sub"] == "matrix" and arr.ndim == 2 and not layout.startswith("memmap"):
        with warnings.catch_warnings():
            warnings.simplefilter("ignore")
            arr = np.asmatrix(arr)
    elif a["sub"] == "custom" and not layout.startswith("memmap"):
        arr = arr.view(_custom_cls(np))
    return arr


def fingerprint(np, arr):
    """dtype, shape, order flag and element bytes (object arrays: repr of elements)."""
    if arr.dtype.hasobject:
        body = repr([(type(x).__name__, x) for x in arr.reshape(-1).tolist()] if arr.ndim else [arr.item()])
        digest = hashlib.sha1(body.encode()).hexdigest()
    else:
        digest = hashlib.sha1(_data_bytes(np, arr)).hexdigest()
    f_only = bool(arr.flags.f_contiguous and not arr.flags.c_contiguous)
    return {"dtype": _descr(arr.dtype), "shape": list(arr.shape), "f_only": f_only, "sha1": digest}


def _data_bytes(np, arr):
    """Element bytes in C order; structured dtypes field by field (padding bytes are not data)."""
    arr = np.asarray(arr)
    if arr.dtype.names:
        return b"".join(_data_bytes(np, arr[n]) for n in arr.dtype.names)
    return np.ascontiguousarray(arr).tobytes()


def _descr(dt):
    return repr(dt.descr) if dt.names else dt.str


def _native(np, arr):
    """What the documented default load must produce from `arr`: same values in native byte order."""
    dt = arr.dtype.newbyteorder("=")
    return arr.astype(dt)


def wrap(a, arr):
    if a["nest"] == "list2":
        return [arr, arr]
    if a["nest"] == "dict":
        return {"k": arr, "n": 3}
    if a["nest"] == "tuple":
        return (1, arr, "x")
    return arr


def unwrap(a, obj):
    if a["nest"] == "list2":
        return [obj[0], obj[1]]
    if a["nest"] == "dict":
        return [obj["k"]]
    if a["nest"] == "tuple":
        return [obj[1]]
    return [obj]


def _cmp(np, what, got, arr, native=False):
    if not isinstance(got, np.ndarray):
        raise Violation("%s: loaded a %s instead of an array" % (what, type(got).__name__), signature=["not-array"])
    fg, fw = fingerprint(np, got), fingerprint(np, arr)
    if native and fg != fw:
        # the documented exception: the default load may convert to the native byte order (same values)
        fw = fingerprint(np, _native(np, arr))
        fw["f_only"] = fingerprint(np, arr)["f_only"]
    for k in ("dtype", "shape", "sha1", "f_only"):
        if fg[k] != fw[k]:
            raise Violation("%s: %s differs: loaded %r, original %r (dtype %s shape %r)" % (what, k, fg[k], fw[k], fw["dtype"], fw["shape"]),
                            signature=["roundtrip", k])


def _nontrivial(np, a, arr, extra=False):
    dt = arr.dtype
    nonnative = any(f.byteorder not in "=|" + ("<" if np.little_endian else ">") for f in _leaf_dtypes(dt))
    return bool(extra or nonnative or not arr.flags.c_contiguous or a["layout"].startswith("memmap") or dt.names or dt.hasobject
                or arr.ndim == 0 or arr.size == 0)


def _leaf_dtypes(dt):
    if dt.names:
        for n in dt.names:
            yield from _leaf_dtypes(dt.fields[n][0])
    elif dt.subdtype:
        yield from _leaf_dtypes(dt.subdtype[0])
    else:
        yield dt


# ---- the three modes -----------------------------------------------------------------------------------

def _persist(np, joblib, spec, scratch):
    a = spec["arr"]
    arr = build_array(np, a, scratch)
    obj = wrap(a, arr)
    comp = spec["compress"]
    comp = tuple(comp) if isinstance(comp, list) else comp
    path = os.path.join(scratch, "c19-%d.pkl" % os.getpid())
    what = "dump/load compress=%r protocol=%r target=%s layout=%s sub=%s nest=%s" % (comp, spec["protocol"], spec["target"], a["layout"], a["sub"], a["nest"])
    try:
        if spec["target"] == "path":
            joblib.dump(obj, path, compress=comp, protocol=spec["protocol"])
            src = lambda: path
        elif spec["target"] == "fileobj":
            with open(path, "wb") as f:
                joblib.dump(obj, f, compress=comp, protocol=spec["protocol"])
            src = lambda: open(path, "rb")
        else:
            bio = io.BytesIO()
            joblib.dump(obj, bio, compress=comp, protocol=spec["protocol"])
            src = lambda: io.BytesIO(bio.getvalue())
    except Exception as e:
        raise Violation("%s: dump raised %s: %s (dtype %s shape %r)" % (what, type(e).__name__, e, arr.dtype, arr.shape), signature=["dump-raises"])
    for native in (False, True):
        s = src()
        try:
            back = joblib.load(s, ensure_native_byte_order=False) if not native else joblib.load(s)
        except Exception as e:
            raise Violation("%s: load(%s) raised %s: %s (dtype %s shape %r)" % (what, "default" if native else "ensure_native_byte_order=False",
                                                                             type(e).__name__, e, arr.dtype, arr.shape), signature=["load-raises"])
        finally:
            if hasattr(s, "close"):
                s.close()
        # subclasses joblib does not intercept are pickled by numpy itself, whose pickling (protocol < 5, numpy 2.x)
        # normalises the byte order: values are judged, the byte order is not
        lenient = native or type(arr) not in (np.ndarray, np.matrix, np.memmap)
        for got in unwrap(a, back):
            _cmp(np, what + (" [default load]" if native else " [ensure_native_byte_order=False]"), got, arr, lenient)
        alias_lost = a["nest"] == "list2" and back[0] is not back[1]   # recorded, not judged (not part of the statement)
    return {"nontrivial": _nontrivial(np, a, arr), "classes": ["persist", "layout=" + a["layout"], "dtype=" + a["dtype"][0]]
            + (["array-aliasing-not-preserved"] if alias_lost else [])}


def _mmap(np, joblib, spec, scratch):
    a = spec["arr"]
    arr = build_array(np, a, scratch)
    obj = wrap(a, arr)
    path = os.path.join(scratch, "c19-%d.pkl" % os.getpid())
    joblib.dump(obj, path, protocol=spec["protocol"])
    what = "load(mmap_mode=%r) protocol=%r layout=%s nest=%s" % (spec["mmap_mode"], spec["protocol"], a["layout"], a["nest"])
    with warnings.catch_warnings():
        warnings.simplefilter("ignore")
        try:
            back = joblib.load(path, mmap_mode=spec["mmap_mode"])
        except Exception as e:
            raise Violation("%s raised %s: %s (dtype %s shape %r)" % (what, type(e).__name__, e, arr.dtype, arr.shape), signature=["mmap-load-raises"])
    with open(path, "rb") as f:
        raw = f.read()
    for got in unwrap(a, back):
        _cmp(np, what, got, arr, type(arr) not in (np.ndarray, np.matrix, np.memmap))
        if not arr.dtype.hasobject and type(arr) in (np.ndarray, np.matrix, np.memmap):
            if not isinstance(got, np.memmap):
                raise Violation("%s: returned %s, not a np.memmap (dtype %s shape %r)" % (what, type(got).__name__, arr.dtype, arr.shape),
                                signature=["not-memmap"])
            if got.size:
                addr = got.ctypes.data
                al = max(1, got.dtype.alignment)
                if addr % al != 0 or not got.flags.aligned:
                    raise Violation("%s: mapped data at address %% %d == %d, flags.aligned=%s (dtype %s shape %r)"
                                    % (what, al, addr % al, got.flags.aligned, arr.dtype, arr.shape), signature=["misaligned"])
                if spec["mmap_mode"] != "w+":
                    seg = raw[got.offset:got.offset + got.nbytes]
                    order = "F" if (got.flags.f_contiguous and not got.flags.c_contiguous) else "C"
                    if seg != np.asarray(got).tobytes(order=order):
                        raise Violation("%s: file bytes at [offset, offset+nbytes) are not the array's bytes" % what, signature=["file-bytes"])
            if spec["mmap_mode"] == "r" and got.flags.writeable:
                raise Violation("%s: mmap_mode='r' array is writeable" % what, signature=["writeable"])
    del back, got
    return {"nontrivial": _nontrivial(np, a, arr, True), "classes": ["mmap", "layout=" + a["layout"], "mode=" + spec["mmap_mode"]]}


def _parallel(np, joblib, spec, scratch):
    from vf import nparr
    a = spec["arr"]
    arr = build_array(np, a, scratch)
    nb = arr.nbytes
    mx = spec["max_nbytes"]
    mx = {"n-1": max(nb - 1, 0), "n": nb, "n+1": nb + 1}.get(mx, mx)
    what = "Parallel(backend=%s, max_nbytes=%r, mmap_mode=%r) layout=%s dtype=%s shape=%r nbytes=%d" % (
        spec["backend"], mx, spec["mmap_mode"], a["layout"], arr.dtype, arr.shape, nb)
    want = nparr.probe(arr, -1)
    signal.signal(signal.SIGALRM, _alarm)
    signal.setitimer(signal.ITIMER_REAL, 120)
    try:
        with warnings.catch_warnings():
            warnings.simplefilter("ignore")
            try:
                res = joblib.Parallel(n_jobs=2, backend=spec["backend"], max_nbytes=mx, mmap_mode=spec["mmap_mode"])(
                    joblib.delayed(nparr.probe)(arr, i) for i in range(2))
            except _Hang:
                raise Violation("%s did not finish within 120 s" % what, signature=["parallel-hang"])
            except Exception as e:
                raise Violation("%s raised %s: %s" % (what, type(e).__name__, str(e)[:300]), signature=["parallel-raises", type(e).__name__])
    finally:
        signal.setitimer(signal.ITIMER_REAL, 0)
    mx_num = None if mx is None else (1024 if mx == "1K" else mx)
    for r in res:
        for k in ("dtype", "shape", "sha1"):
            if r[k] != want[k]:
                raise Violation("%s: the task saw %s=%r, the parent has %r" % (what, k, r[k], want[k]), signature=["worker-values", k])
        if mx_num is not None and nb > mx_num and not arr.dtype.hasobject and not r["memmap_backed"] and type(arr) is np.ndarray:
            raise Violation("%s: array above the threshold was not memory-mapped in the worker (type %s)" % (what, r["type"]),
                            signature=["not-memmapped"])
    near = mx_num is not None and abs(nb - mx_num) <= 1
    return {"nontrivial": _nontrivial(np, a, arr, near), "classes": ["parallel", "backend=" + spec["backend"], "layout=" + a["layout"],
                                                                      "memmapped" if res[0]["memmap_backed"] else "pickled"]}


class _Hang(BaseException):
    pass


def _alarm(signum, frame):
    raise _Hang()


def run_case(spec):
    import numpy as np

    import joblib
    scratch = os.environ.get("VF_SCRATCH", "/tmp")
    try:
        if spec["mode"] == "persist":
            return _persist(np, joblib, spec, scratch)
        if spec["mode"] == "mmap":
            return _mmap(np, joblib, spec, scratch)
        return _parallel(np, joblib, spec, scratch)
    finally:
        import gc
        gc.collect()
        for fn in ("c19-%d.pkl" % os.getpid(), "c19-%d-src.mmap" % os.getpid()):
            try:
                os.unlink(os.path.join(scratch, fn))
            except OSError:
                pass


def shard(ctx):
    warnings.simplefilter("ignore")
    ctx.hyp_run(strategy(), max_examples=ctx.pick(150, 2500))
