"""C13 - BinaryZlibFile / BinaryGzipFile behave like a plain byte stream.

Model-based: an operation list is interpreted against joblib's reader (opened on
data compressed by the *stdlib*) and against an in-memory (data, pos) model.
Writer: drawn chunkings/levels, output expanded by stdlib zlib/gzip and read
back through joblib's reader.
"""

import gzip
import io
import os
import zlib

from hypothesis import strategies as st

from ..core import Violation
from ..engines.values import gen_bytes

PROPERTY_ID = "C13"
LEVEL = "exploration"
RULE = (
    "Hypothesis draws (class zlib|gzip, payload = size from {0,1,8190..8194,16383..16386,3*8192+-1, 0..40000, and (1 case in 7) "
    "16*8192+-1, 128*8192+-1, 3 MiB+17} x kind "
    "{zeros, pattern, random, lines}, stdlib compression level, source BytesIO|path) and an operation list of up to 30 ops "
    "over read(n)/read()/read(-1)/readinto/readline/readline(limit)/tell/seek(whence 0,1,2 to targets >=0 incl. past the end)/"
    "seekable/readable, each compared with an in-memory (data,pos) model, tell()==pos after every op; or a writer case "
    "(payload, level 1..9, chunking with bytes/bytearray/memoryview chunks incl. empty ones) whose output must expand with "
    "stdlib zlib/gzip to the payload and read back through joblib's reader.  Non-trivial reader case: payload > 8192 bytes "
    "and a backward seek or whence=2 seek followed by a read; non-trivial writer case: >=2 non-empty chunks and payload "
    "> 8192 bytes.  distinct = hash of the whole case."
)
ASSUMPTIONS = [
    "stdlib zlib/gzip are the reference codecs; the reader is never fed joblib-written data in reader cases",
    "seeks only to positions >= 0; read(None) not generated",
]
SHARDS = {"quick": 8, "thorough": 16}
NEEDS = {"deps"}          # atheris (coverage-guided campaign) comes from the offline wheelhouse

SIZES = [0, 1, 2, 100, 8190, 8191, 8192, 8193, 8194, 16383, 16384, 16385, 16386, 3 * 8192 - 1, 3 * 8192, 3 * 8192 + 1]


def payload_bytes(p):
    n, kind, seed = p
    if kind == "lines":
        step = 1 + seed % 97
        raw = bytearray(gen_bytes(n, "pattern", seed).replace(b"\n", b"x"))
        for i in range(step - 1, n, step):
            raw[i] = 10
        return bytes(raw)
    return gen_bytes(n, kind, seed)


# sizes whose highly compressible variants make ONE 8 KiB block of compressed input expand to far more than the read-ahead
# block (16x, 128x = the 1 MiB io buffer, 3 MiB): the expansion ratio is a dimension of its own (seeded change C13-d)
BIG_SIZES = [16 * 8192 - 1, 16 * 8192, 16 * 8192 + 1, 16 * 8192 + 5, 128 * 8192 - 1, 128 * 8192, 128 * 8192 + 1, 3 * 2 ** 20 + 17]
_small = st.sampled_from(SIZES) | st.integers(0, 40000)
payloads = st.tuples(st.one_of(_small, _small, _small, st.sampled_from(BIG_SIZES)),
                     st.sampled_from(["zeros", "pattern", "rand", "lines"]), st.integers(0, 500)).map(list)

_ns = st.sampled_from([0, 1, 2, 7, 100, 8191, 8192, 8193, 20000, 10 ** 6]) | st.integers(0, 300)
_target = st.one_of(
    st.tuples(st.just("abs"), st.sampled_from([0, 1, 8191, 8192, 8193, 16384]) | st.integers(0, 45000)),
    st.tuples(st.just("len"), st.integers(-9000, 50)),
    st.tuples(st.just("pos"), st.integers(-9000, 9000)),
).map(list)

read_op = st.one_of(
    st.tuples(st.just("read"), _ns).map(list),
    st.just(["readall"]),
    st.just(["read-1"]),
    st.tuples(st.just("readinto"), _ns.filter(lambda n: n <= 20000)).map(list),
    st.just(["readline"]),
    st.tuples(st.just("readline"), st.integers(0, 200)).map(list),
    st.just(["tell"]),
    st.tuples(st.just("seek"), st.sampled_from([0, 1, 2]), _target).map(list),
    st.just(["seekable"]),
    st.just(["readable"]),
)


def strategy():
    reader = st.fixed_dictionaries({
        "mode": st.just("read"), "cls": st.sampled_from(["zlib", "gzip"]), "payload": payloads,
        "level": st.integers(0, 9), "src": st.sampled_from(["bytesio", "path"]),
        "ops": st.lists(read_op, min_size=1, max_size=30),
    })
    writer = st.fixed_dictionaries({
        "mode": st.just("write"), "cls": st.sampled_from(["zlib", "gzip"]), "payload": payloads,
        "level": st.integers(1, 9), "dst": st.sampled_from(["bytesio", "path"]),
        "chunks": st.lists(st.tuples(st.sampled_from([0, 1, 5, 100, 8191, 8192, 8193, 30000]) | st.integers(0, 3000),
                                     st.sampled_from(["bytes", "bytearray", "memoryview"])).map(list), max_size=12),
    })
    return st.integers(0, 3).flatmap(lambda i: writer if i == 0 else reader)


def _cls(name):
    from joblib.compressor import BinaryGzipFile, BinaryZlibFile

    return BinaryZlibFile if name == "zlib" else BinaryGzipFile


def _scratch_file(tag):
    d = os.environ.get("VF_SCRATCH", "/tmp")
    return os.path.join(d, "c13-%d-%s.bin" % (os.getpid(), tag))


def run_case(spec):
    if spec["mode"] == "write":
        return _run_writer(spec)
    data = payload_bytes(spec["payload"])
    if spec["cls"] == "zlib":
        comp = zlib.compress(data, spec["level"])
    else:
        comp = gzip.compress(data, compresslevel=spec["level"])
    path = None
    if spec["src"] == "path":
        path = _scratch_file("r")
        with open(path, "wb") as f:
            f.write(comp)
        fobj = _cls(spec["cls"])(path, "rb")
    else:
        fobj = _cls(spec["cls"])(io.BytesIO(comp), "rb")
    pos = 0
    n = len(data)
    nontrivial_seek = False
    nontrivial = False
    try:
        for i, op in enumerate(spec["ops"]):
            k = op[0]
            where = "op %d %r (pos=%d, len=%d)" % (i, op, pos, n)
            try:
                if k == "read":
                    got = fobj.read(op[1])
                    exp = data[pos:pos + op[1]]
                    pos += len(exp)
                    _cmp(got, exp, where)
                    if nontrivial_seek and exp:
                        nontrivial = True
                elif k in ("readall", "read-1"):
                    got = fobj.read() if k == "readall" else fobj.read(-1)
                    exp = data[pos:]
                    pos = n
                    _cmp(got, exp, where)
                    if nontrivial_seek and exp:
                        nontrivial = True
                elif k == "readinto":
                    buf = bytearray(op[1])
                    cnt = fobj.readinto(buf)
                    exp = data[pos:pos + op[1]]
                    pos += len(exp)
                    if cnt != len(exp):
                        raise Violation("%s: readinto returned %r, expected %d" % (where, cnt, len(exp)))
                    _cmp(bytes(buf[:cnt]), exp, where)
                    if nontrivial_seek and exp:
                        nontrivial = True
                elif k == "readline":
                    rest = data[pos:]
                    j = rest.find(b"\n")
                    exp = rest if j < 0 else rest[:j + 1]
                    if len(op) > 1:
                        exp = exp[:op[1]]
                        if len(exp) > 300:
                            continue
                        got = fobj.readline(op[1])
                    else:
                        if len(exp) > 300:  # byte-at-a-time in IOBase: keep it cheap
                            continue
                        got = fobj.readline()
                    pos += len(exp)
                    _cmp(got, exp, where)
                elif k == "tell":
                    pass
                elif k == "seek":
                    whence, (base, delta) = op[1], op[2]
                    basev = {"abs": 0, "len": n, "pos": pos}[base]
                    target = max(0, basev + delta)
                    off = target - {0: 0, 1: pos, 2: n}[whence]
                    got = fobj.seek(off, whence)
                    newpos = min(target, n)
                    if got != newpos:
                        raise Violation("%s: seek(%d, %d) returned %r, expected %d" % (where, off, whence, got, newpos))
                    if (newpos < pos or whence == 2) and n > 8192:
                        nontrivial_seek = True
                    pos = newpos
                elif k == "seekable":
                    if fobj.seekable() is not True:
                        raise Violation("%s: seekable() is not True on a seekable source" % where)
                elif k == "readable":
                    if fobj.readable() is not True:
                        raise Violation("%s: readable() is not True" % where)
            except Violation:
                raise
            except Exception as e:
                raise Violation("%s raised %s: %s" % (where, type(e).__name__, e))
            t = fobj.tell()
            if t != pos:
                raise Violation("after %s: tell() = %r, model position %d" % (where, t, pos))
        fobj.close()
        try:
            fobj.read(1)
            raise Violation("read after close did not raise")
        except ValueError:
            pass
    finally:
        try:
            fobj.close()
        except Exception:
            pass
        if path:
            os.unlink(path)
    classes = ["reader", "cls=" + spec["cls"]]
    if n > 8192:
        classes.append("payload>8192")
    if n >= 16 * 8192 - 1:
        classes.append("payload>=128KiB")
    if nontrivial_seek:
        classes.append("backward-or-end-seek")
    return {"nontrivial": nontrivial, "classes": classes}


def _cmp(got, exp, where):
    if not isinstance(got, bytes) or got != exp:
        g = got if not isinstance(got, (bytes, bytearray)) or len(got) < 40 else (bytes(got[:20]), "...len", len(got))
        e = exp if len(exp) < 40 else (exp[:20], "...len", len(exp))
        raise Violation("%s returned %r, reference stream gives %r" % (where, g, e))


def _run_writer(spec):
    data = payload_bytes(spec["payload"])
    path = None
    if spec["dst"] == "path":
        path = _scratch_file("w")
        fobj = _cls(spec["cls"])(path, "wb", compresslevel=spec["level"])
        raw = None
    else:
        raw = io.BytesIO()
        fobj = _cls(spec["cls"])(raw, "wb", compresslevel=spec["level"])
    pos = 0
    nonempty = 0
    try:
        chunks = list(spec["chunks"]) + [[len(data), "bytes"]]  # last chunk takes the rest
        for size, typ in chunks:
            piece = data[pos:pos + size]
            arg = {"bytes": bytes, "bytearray": bytearray, "memoryview": memoryview}[typ](piece)
            r = fobj.write(arg)
            if r != len(piece):
                raise Violation("write(%s of %d bytes) returned %r" % (typ, len(piece), r))
            pos += len(piece)
            nonempty += bool(piece)
            if fobj.tell() != pos:
                raise Violation("tell() after write = %r, expected %d" % (fobj.tell(), pos))
        fobj.close()
        if path:
            with open(path, "rb") as f:
                out = f.read()
        else:
            out = raw.getvalue()
        try:
            back = zlib.decompress(out) if spec["cls"] == "zlib" else gzip.decompress(out)
        except Exception as e:
            raise Violation("stdlib decoder rejects the written stream: %s: %s (payload %r level %d chunks %r)"
                            % (type(e).__name__, e, spec["payload"], spec["level"], spec["chunks"]))
        if back != data:
            raise Violation("stdlib decoder expands the written stream to %d bytes != payload %d bytes (payload %r level %d)"
                            % (len(back), len(data), spec["payload"], spec["level"]))
        rd = _cls(spec["cls"])(io.BytesIO(out), "rb")
        again = rd.read()
        rd.close()
        if again != data:
            raise Violation("joblib reader returns %d bytes from the joblib-written stream, payload is %d" % (len(again), len(data)))
    except Violation:
        raise
    except Exception as e:
        raise Violation("writer raised %s: %s" % (type(e).__name__, e))
    finally:
        try:
            fobj.close()
        except Exception:
            pass
        if path and os.path.exists(path):
            os.unlink(path)
    return {"nontrivial": nonempty >= 2 and len(data) > 8192, "classes": ["writer", "cls=" + spec["cls"]]}


def _atheris_campaign(ctx, seconds, with_corpus):
    """Coverage-guided campaign (atheris/libFuzzer, joblib.compressor instrumented) over the same case space and oracle."""
    import json
    import subprocess
    import sys

    out = os.path.join(ctx.scratch, "fuzz-out.json")
    corpus = os.path.join(ctx.scratch, "corpus")
    cmd = [sys.executable, "-m", "vf.fuzz_c13", out, str(seconds), str(ctx.seed + ctx.shard)] + ([corpus] if with_corpus else [])
    try:
        subprocess.run(cmd, stdout=subprocess.DEVNULL, stderr=subprocess.DEVNULL, timeout=seconds + 120)
    except subprocess.TimeoutExpired:
        ctx.stats.notes.append("atheris campaign timed out")
        return
    try:
        with open(out) as f:
            res = json.load(f)
    except (OSError, ValueError):
        ctx.stats.notes.append("atheris campaign produced no result (atheris not importable?)")
        return
    ctx.stats.extra["n_atheris_runs"] = ctx.stats.extra.get("n_atheris_runs", 0) + res["runs"]
    ctx.stats.count("atheris-campaign-%s-corpus" % ("seeded" if with_corpus else "empty"))
    if res.get("failure"):
        # re-check through the plain path so that the failure is recorded (and replayable) like any other
        ctx.run_one(res["failure"])


def shard(ctx):
    ctx.hyp_run(strategy(), max_examples=ctx.pick(1500, 12000))
    if ctx.shard == 0:
        _atheris_campaign(ctx, ctx.pick(12, 150), with_corpus=True)
    elif ctx.shard == 1:
        _atheris_campaign(ctx, ctx.pick(12, 150), with_corpus=False)
