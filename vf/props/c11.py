"""C11 - concurrent users of one cache directory always get correct values."""

import json
import os
import select
import shutil
import signal
import sys
import time
import warnings

from hypothesis import strategies as st

from ..core import HarnessError, Inconclusive, Violation
from ..engines import fsgate
from . import c05

PROPERTY_ID = "C11"
LEVEL = "exploration"
RULE = (
    "2-4 participants (forked processes, or threads of one process sharing the Memory object and its wrappers) each run a generated workload over two cached "
    "functions: calls with arguments from a small set (collisions are the norm), the same calls through wrappers whose "
    "cache_validation_callback rejects every entry (the call removes the entry it finds, then recomputes), reduce_size(items_limit 0|1), "
    "reduce_size(bytes_limit), Memory.clear(), f.clear().  Every libc file-system call under the cache directory (reads "
    "included: stat, access, open, opendir; and every create/write/rename/mkdir/unlink/rmdir) is intercepted by the LD_PRELOAD "
    "interposer in TURN mode: the participant posts the call and blocks until the controller grants it, so exactly one "
    "participant runs between two grants and the interleaving is a pure function of the drawn schedule: run the current "
    "participant until it exits, with up to 3 (quick) / 6 (thorough) drawn pre-emptions (after how many of its events, switch "
    "to whom).  Oracle: every cached call in every participant returns the value its function computes and raises nothing; "
    "afterwards every output.pkl present loads completely and holds a value the workload computes.  Exceptions raised by "
    "clear()/reduce_size() themselves are recorded, not judged.  Non-trivial: a pre-emption took effect while the pre-empted "
    "participant was inside a cached call and another participant then issued a mutation.  distinct = hash of (workloads, "
    "schedule)."
)
ASSUMPTIONS = [
    "participants are processes or threads of one process (a parked thread waits inside a libc call, i.e. without the GIL)",
    "Memory objects and wrappers are created before the scheduled section (decoration time)",
    "interleavings are sampled with bounded pre-emptions, not enumerated; a single libc call is atomic",
]
NEEDS = {"fsgate"}
SCRATCH_BASE = "disk"
SHARDS = {"quick": 12, "thorough": 16}
TIMEOUT = {"quick": 900, "thorough": 5400}
MUTATIONS = ("open-w", "write", "rename", "unlink", "rmdir", "mkdir", "truncate", "ftruncate")


def strategy():
    arg = st.tuples(st.sampled_from([10, 10, 3000, 70000]), st.sampled_from(["a", "b"])).map(list)
    op = st.one_of(
        st.tuples(st.just("call"), st.integers(0, 1), arg).map(list),
        st.tuples(st.just("call"), st.integers(0, 1), arg).map(list),
        st.tuples(st.just("call_stale"), st.integers(0, 1), arg).map(list),
        st.tuples(st.just("reduce"), st.integers(0, 1)).map(list),
        st.tuples(st.just("reduce_bytes"), st.sampled_from([0, 1000, 100000])).map(list),
        st.just(["clear"]),
        st.tuples(st.just("fclear"), st.integers(0, 1)).map(list),
    )
    return st.fixed_dictionaries({
        "participants": st.lists(st.lists(op, min_size=1, max_size=4), min_size=2, max_size=4),
        # entries that exist before the scheduled section starts (warm calls meet concurrent evictions)
        "warm": st.lists(st.tuples(st.integers(0, 1), arg).map(list), max_size=3),
        "preempt": st.lists(st.tuples(st.integers(0, 12) | st.integers(0, 40), st.integers(0, 3)).map(list), max_size=6),
        "compress": st.sampled_from([False, False, True]),
        "kind": st.sampled_from(["processes", "processes", "threads"]),
    })


def signature(spec):
    return None


def _participant(i, spec, location, moddir, reqw, grantr, respath):
    warnings.simplefilter("ignore")
    import logging
    logging.disable(logging.CRITICAL)

    import joblib

    mod = c05._load_module_noreload(moddir)
    mem = joblib.Memory(location, compress=spec["compress"], verbose=0)
    wrapped = [mem.cache(mod.wf0), mem.cache(mod.wf1),
               # the same functions with a validation callback that rejects every entry: each such call first removes the
               # entry it finds (another remover may be at work on it) and then recomputes
               mem.cache(mod.wf0, cache_validation_callback=_never_valid), mem.cache(mod.wf1, cache_validation_callback=_never_valid)]
    fsgate.arm(location, fsgate.TURN, reqfd=reqw, grantfd=grantr, ident=i)
    try:
        results = _ops(spec["participants"][i], mem, wrapped)
    finally:
        fsgate.disarm()
    with open(respath, "w") as f:
        json.dump(results, f)


def _threads_host(spec, location, moddir, reqw, grant_r, alive_w, top):
    """All participants are threads of this one process and share the Memory object and the wrappers."""
    import threading
    warnings.simplefilter("ignore")
    import logging
    logging.disable(logging.CRITICAL)

    import joblib

    mod = c05._load_module_noreload(moddir)
    mem = joblib.Memory(location, compress=spec["compress"], verbose=0)
    wrapped = [mem.cache(mod.wf0), mem.cache(mod.wf1),
               # the same functions with a validation callback that rejects every entry: each such call first removes the
               # entry it finds (another remover may be at work on it) and then recomputes
               mem.cache(mod.wf0, cache_validation_callback=_never_valid), mem.cache(mod.wf1, cache_validation_callback=_never_valid)]
    fsgate.arm(location, fsgate.TURN, reqfd=reqw, grantfd=-1, ident=99)   # threads that are not participants run free

    def body(i):
        fsgate.thread_participant(i, grant_r[i])
        try:
            res = _ops(spec["participants"][i], mem, wrapped)
            with open(os.path.join(top, "res%d.json" % i), "w") as f:
                json.dump(res, f)
        finally:
            fsgate.thread_participant(-1, -1)
            os.close(alive_w[i])      # tells the controller that this participant is gone
    ths = [threading.Thread(target=body, args=(i,)) for i in range(len(spec["participants"]))]
    for t in ths:
        t.start()
    for t in ths:
        t.join()
    fsgate.disarm()


def _never_valid(metadata):
    return False


def _ops(ops, mem, wrapped):
    import traceback
    results = []
    if True:
        for op in ops:
            k = op[0]
            try:
                if k in ("call", "call_stale"):
                    got = wrapped[op[1] + (2 if k == "call_stale" else 0)](*op[2])
                    want = c05._expected(op[1], 1, op[2][0], op[2][1])
                    results.append({"op": op, "ok": got == want, "got": None if got == want else repr(got)[:200]})
                elif k == "reduce":
                    mem.reduce_size(items_limit=op[1])
                    results.append({"op": op, "ok": True})
                elif k == "reduce_bytes":
                    mem.reduce_size(bytes_limit=op[1])
                    results.append({"op": op, "ok": True})
                elif k == "clear":
                    mem.clear(warn=False)
                    results.append({"op": op, "ok": True})
                elif k == "fclear":
                    wrapped[op[1]].clear(warn=False)
                    results.append({"op": op, "ok": True})
            except Exception as e:
                tb = traceback.extract_tb(e.__traceback__)
                where = ["%s:%d %s" % (os.path.basename(fr.filename), fr.lineno, fr.name) for fr in tb if "/repo/joblib" in fr.filename][-3:]
                results.append({"op": op, "ok": False, "raised": "%s: %s" % (type(e).__name__, str(e)[:200]), "where": where})
    return results


def run_case(spec):
    if not fsgate.preloaded():
        raise HarnessError("fsgate.so not preloaded")
    scratch = os.environ.get("VF_SCRATCH", "/var/tmp")
    top = os.path.join(scratch, "c11-%d" % os.getpid())
    shutil.rmtree(top, ignore_errors=True)
    os.makedirs(top)
    location = os.path.join(top, "cache")
    moddir = os.path.join(top, "mod")
    os.makedirs(moddir)
    with open(os.path.join(moddir, c05.MODNAME + ".py"), "w", encoding="utf-8") as f:
        f.write(c05._source(1))
    n = len(spec["participants"])
    if spec.get("warm"):
        def _warm():
            import joblib
            mod = c05._load_module_noreload(moddir)
            mem = joblib.Memory(location, compress=spec["compress"], verbose=0)
            for fi, a in spec["warm"]:
                mem.cache(mod.wf0 if fi == 0 else mod.wf1)(*a)
        c05._child(_warm)
    reqr, reqw = os.pipe()
    grants = [os.pipe() for _ in range(n)]
    alive = [os.pipe() for _ in range(n)]
    pids = []
    sys.stdout.flush()
    sys.stderr.flush()
    try:
        if spec.get("kind") == "threads":
            pid = os.fork()
            if pid == 0:
                rc = 0
                try:
                    os.close(reqr)
                    for j in range(n):
                        os.close(grants[j][1])
                        os.close(alive[j][0])
                    _threads_host(spec, location, moddir, reqw, [g[0] for g in grants], [a[1] for a in alive], top)
                except BaseException:
                    import traceback
                    traceback.print_exc()
                    rc = 3
                finally:
                    os._exit(rc)
            pids.append(pid)
        for i in range(n if spec.get("kind") != "threads" else 0):
            pid = os.fork()
            if pid == 0:
                rc = 0
                try:
                    os.close(reqr)
                    for j in range(n):
                        os.close(grants[j][1])
                        os.close(alive[j][0])
                        if j != i:
                            os.close(grants[j][0])
                            os.close(alive[j][1])
                    _participant(i, spec, location, moddir, reqw, grants[i][0], os.path.join(top, "res%d.json" % i))
                except BaseException:
                    import traceback
                    traceback.print_exc()
                    rc = 3
                finally:
                    os._exit(rc)
            pids.append(pid)
        os.close(reqw)
        for j in range(n):
            os.close(grants[j][0])
            os.close(alive[j][1])
        trace = _control(spec, n, reqr, [g[1] for g in grants], [a[0] for a in alive])
    finally:
        for pid in pids:
            try:
                os.kill(pid, signal.SIGKILL)
            except OSError:
                pass
        for pid in pids:
            try:
                os.waitpid(pid, 0)
            except OSError:
                pass
        for fd in [reqr] + [g[1] for g in grants] + [a[0] for a in alive]:
            try:
                os.close(fd)
            except OSError:
                pass
    try:
        if trace.get("stuck"):
            raise HarnessError("turn scheduler stuck: %s" % trace["stuck"])
        sched = "participants=%s preempt=%r compress=%r; interleaving (id kind path)=%s" % (
            json.dumps(spec["participants"]), spec["preempt"], spec["compress"], trace["tail"])
        recorded = []
        for i in range(n):
            rp = os.path.join(top, "res%d.json" % i)
            if not os.path.exists(rp):
                raise HarnessError("participant %d wrote no result" % i)
            with open(rp) as f:
                res = json.load(f)
            for r in res:
                if r["op"][0] in ("call", "call_stale"):
                    if "raised" in r:
                        raise Violation("participant %d: cached call %r raised %s at %s because of the concurrent activity; %s"
                                        % (i, r["op"], r["raised"], r["where"], sched), signature=["call-raises", r["raised"].split(":")[0], r["where"][-1:] and r["where"][-1].split()[-1]])
                    if not r["ok"]:
                        raise Violation("participant %d: cached call %r returned a wrong value %s; %s" % (i, r["op"], r["got"], sched),
                                        signature=["wrong-value"])
                elif "raised" in r:
                    recorded.append("%s raised %s" % (r["op"][0], r["raised"].split(":")[0]))
        # final files whole
        import joblib
        for root, _, files in os.walk(location):
            if "output.pkl" in files:
                p = os.path.join(root, "output.pkl")
                try:
                    val = joblib.load(p)
                except Exception as e:
                    raise Violation("after all participants finished %s does not load: %s: %s; %s"
                                    % (os.path.relpath(p, location), type(e).__name__, e, sched), signature=["partial-output"])
                if not (isinstance(val, tuple) and len(val) == 5 and val == c05._expected(0 if val[0] == "wf0" else 1, 1, val[2], val[3])):
                    raise Violation("after all participants finished %s holds a mixture / a value nobody computes: %r; %s"
                                    % (os.path.relpath(p, location), val[:4] if isinstance(val, tuple) else val, sched), signature=["garbled-output"])
    finally:
        shutil.rmtree(top, ignore_errors=True)
    classes = ["participants=%d" % n, "kind=%s" % spec.get("kind", "processes"), "preemptions-effective=%d" % trace["switches"]] + sorted(set(recorded))
    if trace["interesting"]:
        classes.append("preempted-inside-a-call-then-foreign-mutation")
    _STATS["n_events_scheduled"] = _STATS.get("n_events_scheduled", 0) + trace["events"]
    return {"nontrivial": trace["interesting"], "classes": classes}


_STATS = {}


def _control(spec, n, reqr, grantw, alive_r):
    """Turn-based controller.  Returns a summary of the interleaving."""
    parked = {}          # id -> (kind, path)
    exited = set()
    buf = b""
    pre = [list(p) for p in spec["preempt"]]
    current = 0
    since = 0
    events = 0
    switches = 0
    log = []
    interesting = False
    preempted_mid = set()     # participants pre-empted while they still had events to come
    deadline = time.time() + 60

    def pump(timeout):
        nonlocal buf
        fds = [reqr] + [alive_r[i] for i in range(n) if i not in exited]
        r, _, _ = select.select(fds, [], [], timeout)
        for fd in r:
            if fd == reqr:
                data = os.read(reqr, 65536)
                buf += data
                while b"\n" in buf:
                    line, buf = buf.split(b"\n", 1)
                    parts = line.decode("utf-8", "replace").split(" ", 2)
                    if len(parts) == 3:
                        parked[int(parts[0])] = (parts[1], parts[2])
            else:
                i = alive_r.index(fd)
                if os.read(fd, 1) == b"":
                    exited.add(i)
        return bool(r)

    # start-up: everybody reaches its first event (or exits)
    while len(parked) + len(exited) < n:
        if not pump(20) and time.time() > deadline:
            return {"stuck": "start-up: parked=%r exited=%r" % (sorted(parked), sorted(exited))}
        # a participant that exited may have left a parked entry: remove it
        for i in list(parked):
            if i in exited:
                del parked[i]
    while True:
        live = [i for i in range(n) if i not in exited]
        if not live:
            break
        if current not in live:
            current = live[0]
            since = 0
        if pre and since >= pre[0][0] and len(live) > 1:
            nxt = live[pre[0][1] % len(live)]
            pre.pop(0)
            if nxt != current:
                preempted_mid.add(current)
                current = nxt
                since = 0
                switches += 1
        if current not in parked:
            # it is running or about to exit: wait for its next request / exit
            if not pump(20):
                return {"stuck": "participant %d neither requests a turn nor exits; parked=%r exited=%r" % (current, parked, sorted(exited))}
            for i in list(parked):
                if i in exited:
                    del parked[i]
            continue
        kind, path = parked.pop(current)
        events += 1
        since += 1
        short = path.split("/cache/", 1)[-1]
        log.append("%d %s %s" % (current, kind, short[-60:]))
        if kind in MUTATIONS and any(p != current for p in preempted_mid):
            interesting = True
        os.write(grantw[current], b"g")
        # wait until it parks again or exits
        t_end = time.time() + 20
        while current not in parked and current not in exited:
            if not pump(max(0.0, t_end - time.time())) and time.time() >= t_end:
                return {"stuck": "participant %d did not come back after %s %s" % (current, kind, path)}
        if current in exited and current in parked:
            del parked[current]
    return {"events": events, "switches": switches, "interesting": interesting, "tail": json.dumps(log[-40:])}


def shard(ctx):
    warnings.simplefilter("ignore")
    ctx.hyp_run(strategy(), max_examples=ctx.pick(300, 4000))
    ctx.stats.extra.update(_STATS)
