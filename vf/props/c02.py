"""C02 - a Memory-cached function never returns a value belonging to other arguments."""

import json
import os

from ..core import Violation
from ..engines import memmachine as MM

PROPERTY_ID = "C02"
LEVEL = "exploration"
RULE = (
    "Hypothesis draws 1-3 functions with signatures from the exhaustive set of <=4-parameter signatures (positional-only, "
    "positional-or-keyword, *args, keyword-only, **kwargs, with/without defaults), carriers plain function, async function, functools.partial (two partials of one function with different bound values) and bound methods "
    "of two instances with different state, per-function ignore lists, compress in {False, True, 1, 9}, and a history of up "
    "to 25 steps over a small bank of argument vectors drawn from a pool of near-colliding values (1/1.0/True/'1'/b'1'/(1,)/"
    "[1]/{1}/frozenset, dicts and sets built in drawn insertion orders, ...): cached call in a drawn spelling (how many "
    "positionals, defaults omitted or spelled out, different values for ignored parameters), call_and_shelve().get(), the "
    "same call in another interpreter with a different PYTHONHASHSEED, Memory.clear / f.clear / reduce_size.  Every function "
    "returns (its name, canonical form of its bound non-ignored arguments), so the oracle is: every value returned by the "
    "wrapper, a shelved reference or the other process equals what the plain function returns for those arguments.  "
    "Non-trivial: the history contains two calls of one function whose bound arguments differ only in the type or container "
    "kind of Python-equal values (or only in a positional-only/keyword-only slot).  distinct = hash of the history."
)
ASSUMPTIONS = [
    "functions are pure and named; lambdas and closures are outside the domain (documented)",
    "functools.partial carriers bind the first positional parameter; ignore lists cannot apply to them (documented)",
    "ignored parameters do not influence the function's value (that is what ignoring means)",
]
SHARDS = {"quick": 16, "thorough": 16}

_server = []


def prepare(ctx):
    import logging
    logging.disable(logging.CRITICAL)
    _server.append(MM.Server())


def finish(ctx):
    for s in _server:
        s.close()
    del _server[:]


def strategy():
    return MM.specs()


def _near_colliding(records):
    """Two calls on one function with different keys whose differing arguments are Python-equal."""
    by_f = {}
    for r in records:
        if "key" in r:
            by_f.setdefault((r["key"][0], r["key"][1]), set()).add(r["key"][2])
    for keys in by_f.values():
        ks = [json.loads(k) for k in keys]
        for i in range(len(ks)):
            for j in range(i + 1, len(ks)):
                a, b = ks[i], ks[j]
                if set(a) != set(b):
                    continue
                diff = [p for p in a if a[p] != b[p]]
                if 1 <= len(diff) <= 2 and all(_same_modulo_type(a[p], b[p]) for p in diff):
                    return True
    return False


def _same_modulo_type(ca, cb):
    """canon strings that differ only in type tags / container kinds (cheap structural test)."""
    def strip(x):
        x = json.loads(x)

        def s(n):
            if isinstance(n, list) and n and isinstance(n[0], str):
                t = n[0]
                if t in ("tuple", "list", "set", "frozenset"):
                    return ["seq", sorted((s(c) for c in n[1]), key=json.dumps)]
                if t in ("int", "float", "bool"):
                    try:
                        if t == "float":
                            v = float.fromhex(n[1]) if n[1] not in ("nan", "inf", "-inf") else float(n[1])
                        else:
                            v = int(n[1]) if t == "int" else int(bool(n[1]))
                        return ["num", repr(float(v))]
                    except Exception:
                        return n
                if t == "bytes":
                    try:
                        return ["txt", bytes.fromhex(n[1]).decode("latin-1")]
                    except Exception:
                        return n
                if t == "str":
                    return ["txt", n[1]]
            return n
        return json.dumps(s(x), sort_keys=True)
    try:
        return strip(ca) == strip(cb)
    except Exception:
        return False


def run_case(spec):
    if not _server:
        prepare(None)
    scratch = os.environ.get("VF_SCRATCH", "/tmp")
    records = MM.run(spec, scratch, _server[0])
    n_values = 0
    for r in records:
        if "value" in r:
            n_values += 1
            if r["value"] != r["expected"]:
                raise Violation(
                    "step %d (%s, carrier %s): cached %s returned %r but the plain function returns %r for the same arguments "
                    "(spelling %r; signatures %s; ignore %r; compress %r)"
                    % (r["i"], r["op"], r["key"][0], r["expected"][0], r["value"], r["expected"], r["spelling"][:3],
                       [__import__("vf.engines.sigs", fromlist=["x"]).sig_source(s) for s in spec["sigs"]], spec["ignore"], spec["compress"]))
    classes = ["compress=%r" % spec["compress"]]
    for r in records:
        if "value" in r:
            classes.append("op=" + r["op"])
            if r["key"][0] in ("mA", "mB"):
                classes.append("bound-method")
            elif r["key"][0] == "as":
                classes.append("async-function")
            elif r["key"][0] in ("pA", "pB"):
                classes.append("partial")
    return {"nontrivial": n_values >= 2 and _near_colliding(records), "classes": sorted(set(classes))}


def shard(ctx):
    ctx.hyp_run(strategy(), max_examples=ctx.pick(150, 2000))
