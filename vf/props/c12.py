"""C12 - a cached function never returns a value computed by different source code."""

import json
import os
import shutil
import subprocess
import sys

from hypothesis import strategies as st

from ..core import HarnessError, Inconclusive, Violation

PROPERTY_ID = "C12"
LEVEL = "exploration"
RULE = (
    "Hypothesis draws a function kind (module-level function in a real file that is rewritten and re-imported, nested "
    "function, lambda, function of a script run as __main__, function whose file does not exist (source only in linecache), exec()-defined function without any retrievable source whose versions differ only by a constant) "
    "(plus an 'indent' kind whose versions differ only in the indentation of two lines, and a 'swap' kind: one definition whose code object is replaced by that of donor functions of the same file and restored) and a history of 1-3 sessions, each a fresh interpreter sharing one cache directory, made of steps: define version k "
    "(same name and module, optionally with the first line shifted), call live version j with argument a, swap the code "
    "object of a live version or restore its original one, drop every reference to a live version (function, wrapper, "
    "module) and garbage-collect.  Version k returns (k, a).  Oracle: every call of a live version whose code is version v "
    "returns (v, a); and for kinds with a real file, a call that the reference model (stored version + set of cached "
    "arguments, wiped when another version is called) says is cached executes the body 0 times - in particular unchanged "
    "code keeps its cache across sessions.  Non-trivial: an older version called after a newer one was called with the same "
    "argument, or a session boundary with an edit in between.  distinct = hash of (kind, history)."
)
ASSUMPTIONS = [
    "each definition is wrapped with Memory.cache at definition time (decorator style)",
    "functions whose source file does not exist may lose their cache across sessions (documented fallback): only values are judged",
    "two processes alive at the same time with different versions are outside the quantifier (fresh processes, one at a time)",
]
SHARDS = {"quick": 12, "thorough": 16}
TIMEOUT = {"quick": 900, "thorough": 3600}


def strategy():
    step = st.one_of(
        st.tuples(st.just("def"), st.integers(1, 3), st.integers(0, 2)).map(list),
        st.tuples(st.just("call"), st.integers(1, 3), st.integers(0, 2)).map(list),
        st.tuples(st.just("call"), st.integers(1, 3), st.integers(0, 2)).map(list),
        st.tuples(st.just("call"), st.integers(1, 3), st.integers(0, 1)).map(list),
        st.tuples(st.just("forget"), st.integers(1, 3)).map(list),
    )
    session = st.lists(step, min_size=1, max_size=10).map(lambda s: [["def", 1, 0]] + s if s[0][0] != "def" else s)
    redefine = st.fixed_dictionaries({
        "kind": st.sampled_from(["module", "module", "nested", "lambda", "main", "nofile", "sourceless", "indent"]),
        "sessions": st.lists(session, min_size=1, max_size=3),
    })
    # code-object swapping: one definition f plus donor functions in the same file (all sources stay retrievable)
    sstep = st.one_of(
        st.tuples(st.just("call"), st.just(1), st.integers(0, 1)).map(list),
        st.tuples(st.just("call"), st.just(1), st.integers(0, 1)).map(list),
        st.tuples(st.just("swap"), st.just(1), st.integers(2, 3)).map(list),
        st.tuples(st.just("restore"), st.just(1)).map(list),
    )
    swap = st.fixed_dictionaries({
        "kind": st.just("swap"),
        "sessions": st.lists(st.lists(sstep, min_size=1, max_size=10).map(lambda s: [["def", 1, 0]] + s), min_size=1, max_size=2),
    })
    return st.integers(0, 4).flatmap(lambda i: swap if i == 0 else redefine)


def signature(spec):
    return None


def run_case(spec):
    scratch = os.environ.get("VF_SCRATCH", "/tmp")
    top = os.path.join(scratch, "c12-%d" % os.getpid())
    shutil.rmtree(top, ignore_errors=True)
    os.makedirs(os.path.join(top, "mod"))
    location = os.path.join(top, "cache")
    kind = spec["kind"]
    file_kind = kind not in ("nofile", "sourceless")
    disk_version, disk_keys = None, set()
    called = {}      # arg -> set of versions already called with it (anywhere in the history)
    nontrivial = False
    swapped = False
    classes = ["kind=" + kind, "sessions=%d" % len(spec["sessions"])]
    try:
        prev_last_def = None
        for si, steps in enumerate(spec["sessions"]):
            args = {"kind": kind, "location": location, "moddir": os.path.join(top, "mod"), "steps": steps}
            env = dict(os.environ)
            p = subprocess.run([sys.executable, "-m", "vf.engines.c12session", json.dumps(args)], capture_output=True, text=True,
                               timeout=120, env=env)
            if p.returncode != 0 or "@@RESULT@@" not in p.stdout:
                raise HarnessError("c12 session failed: %s %s" % (p.stdout[-500:], p.stderr[-1500:]))
            res = json.loads(p.stdout.split("@@RESULT@@")[1])
            first_def = next((s for s in steps if s[0] == "def"), None)
            if si > 0 and first_def and prev_last_def and first_def[1] != prev_last_def:
                nontrivial = True
                classes.append("edit-between-sessions")
            for step, r in zip(steps, res):
                if r.get("skipped"):
                    continue
                if r["op"] == "def":
                    prev_last_def = r["k"]
                if r["op"] in ("swap", "restore"):
                    swapped = True
                    classes.append("code-" + r["op"])
                if r["op"] == "forget":
                    classes.append("forget-version")
                if r["op"] != "call":
                    continue
                v, a = r["version"], r["a"]
                ctx = "kind=%s session %d/%d step %r (live version %d running code of version %d); history=%s" % (
                    kind, si + 1, len(spec["sessions"]), step, r["j"], v, json.dumps(spec["sessions"]))
                if "raised" in r:
                    raise Violation("cached call raised %s; %s" % (r["raised"], ctx), signature=["raises"])
                if r["value"] != [v, a]:
                    raise Violation("cached function returned %r but its own code computes %r; %s" % (r["value"], [v, a], ctx),
                                    signature=["wrong-version", kind])
                newer_called = any(w > v for w in called.get(a, ()))
                if newer_called:
                    nontrivial = True
                    classes.append("older-after-newer")
                called.setdefault(a, set()).add(v)
                if disk_version != v:
                    disk_version, disk_keys = v, set()
                hit = a in disk_keys
                disk_keys.add(a)
                if file_kind and not swapped and hit and r["executed"]:
                    raise Violation("unchanged code lost its cache: the body ran again for an argument cached by the same version and "
                                    "not invalidated since; %s" % ctx, signature=["lost-cache", kind])
                if hit and si > 0:
                    classes.append("hit-across-sessions")
    finally:
        shutil.rmtree(top, ignore_errors=True)
    return {"nontrivial": nontrivial, "classes": sorted(set(classes))}


def shard(ctx):
    ctx.hyp_run(strategy(), max_examples=ctx.pick(30, 500))
