"""Shared infrastructure: case results, statistics, Hypothesis driver.

A property module (vf/props/cNN.py) exposes

    PROPERTY_ID, LEVEL, RULE, ASSUMPTIONS
    NEEDS          : set of {"deps", "fsgate"} (optional)
    SHARDS         : {"quick": n, "thorough": n} (optional, default 8/16)
    shard(ctx)     : explore; record into ctx.stats (via ctx.hyp_run / ctx.run_one)
    run_case(spec) : execute ONE json-able spec; return dict(nontrivial=..,
                     classes=[..], key=..) or raise Violation
    signature(spec): optional static root-cause class of a spec (json-able)

Exit protocol lives in vf/run.py.
"""

import hashlib
import json
import os
import random
import sys
import time
import traceback


class Violation(Exception):
    """The property does not hold on this case."""

    def __init__(self, msg, signature=None, detail=None):
        super().__init__(msg)
        self.msg = msg
        self.signature = signature
        self.detail = detail


class HarnessError(Exception):
    """The machinery itself is broken (never reported as a violation)."""


class Inconclusive(Exception):
    """Case could not be judged (budget, discarded run)."""


def jhash(obj):
    return hashlib.sha1(
        json.dumps(obj, sort_keys=True, default=repr).encode()
    ).hexdigest()[:16]


def sub_seed(seed, *parts):
    h = hashlib.sha256(repr((int(seed),) + parts).encode()).digest()
    return int.from_bytes(h[:4], "big")


class Stats:
    MAX_SAMPLES = 6

    def __init__(self):
        self.evaluations = 0
        self.nontrivial = set()
        self.classes = {}
        self.samples = []
        self.failures = []  # dicts: spec, signature, msg
        self.excluded = 0
        self.skipped = 0
        self.inconclusive = 0
        self.notes = []
        self.extra = {}
        self._rng = random.Random(12345)

    def record(self, spec, res):
        self.evaluations += 1
        res = res or {}
        for c in res.get("classes", ()):
            self.classes[c] = self.classes.get(c, 0) + 1
        if res.get("nontrivial"):
            key = res.get("key")
            self.nontrivial.add(jhash(spec if key is None else key))
            # keep a few non-trivial samples (reservoir)
            s = res.get("sample", spec)
            if len(self.samples) < self.MAX_SAMPLES:
                self.samples.append(s)
            elif self._rng.random() < 0.02:
                self.samples[self._rng.randrange(self.MAX_SAMPLES)] = s

    def count(self, cls, n=1):
        self.classes[cls] = self.classes.get(cls, 0) + n

    def to_json(self):
        return {
            "evaluations": self.evaluations,
            "nontrivial": sorted(self.nontrivial),
            "classes": self.classes,
            "samples": self.samples,
            "failures": self.failures,
            "excluded": self.excluded,
            "skipped": self.skipped,
            "inconclusive": self.inconclusive,
            "notes": self.notes,
            "extra": self.extra,
        }


def merge_stats(dicts):
    out = {
        "evaluations": 0,
        "nontrivial": set(),
        "classes": {},
        "samples": [],
        "failures": [],
        "excluded": 0,
        "skipped": 0,
        "inconclusive": 0,
        "notes": [],
        "extra": {},
    }
    for d in dicts:
        out["evaluations"] += d["evaluations"]
        out["nontrivial"].update(d["nontrivial"])
        for k, v in d["classes"].items():
            out["classes"][k] = out["classes"].get(k, 0) + v
        out["samples"].extend(d["samples"][:2])
        out["failures"].extend(d["failures"])
        out["excluded"] += d["excluded"]
        out["skipped"] += d["skipped"]
        out["inconclusive"] += d["inconclusive"]
        out["notes"].extend(d["notes"])
        for k, v in d.get("extra", {}).items():
            if isinstance(v, (int, float)) and not isinstance(v, bool) and k.startswith("n_"):
                out["extra"][k] = out["extra"].get(k, 0) + v
            elif isinstance(v, list):
                out["extra"].setdefault(k, []).extend(v)
            else:
                out["extra"][k] = v
    return out


class ShardCtx:
    def __init__(self, mod, tier, seed, shard, n_shards, excluded, scratch, phase="search"):
        self.mod = mod
        self.tier = tier
        self.seed = seed
        self.shard = shard
        self.n_shards = n_shards
        self.excluded = [json.dumps(e, sort_keys=True) for e in excluded]
        self.scratch = scratch
        self.stats = Stats()
        self.phase = phase
        self.t0 = time.time()
        self.soft_deadline = float("inf")

    def out_of_time(self):
        return time.time() > self.soft_deadline

    @property
    def thorough(self):
        return self.tier == "thorough"

    def pick(self, quick, thorough):
        return thorough if self.thorough else quick

    def is_excluded(self, sig):
        if sig is None:
            return False
        return json.dumps(sig, sort_keys=True) in self.excluded

    def mine(self, i):
        """Static partition of an enumerated domain among shards."""
        return i % self.n_shards == self.shard

    # -- single case ------------------------------------------------------
    def run_one(self, spec, case_fn=None, sig_fn=None):
        """Run one enumerated case; record it; collect (not raise) violations."""
        case_fn = case_fn or self.mod.run_case
        sig_fn = sig_fn or getattr(self.mod, "signature", None)
        sig = sig_fn(spec) if sig_fn else None
        if self.is_excluded(sig):
            self.stats.excluded += 1
            return None
        try:
            res = case_fn(spec)
        except Violation as v:
            vsig = v.signature if v.signature is not None else sig
            if self.is_excluded(vsig):
                self.stats.excluded += 1
                return None
            self.stats.evaluations += 1
            # keep the smallest spec per signature
            size = len(json.dumps(spec, default=repr))
            for f in self.stats.failures:
                if f["signature"] == vsig:
                    f["count"] += 1
                    if size < f["size"]:
                        f.update(spec=spec, msg=v.msg, size=size)
                    break
            else:
                self.stats.failures.append(
                    {"spec": spec, "signature": vsig, "msg": v.msg, "size": size, "count": 1}
                )
            return None
        except Inconclusive:
            self.stats.inconclusive += 1
            return None
        self.stats.record(spec, res)
        return res

    # -- Hypothesis driver --------------------------------------------------
    def hyp_run(self, strategy, case_fn=None, max_examples=100, sig_fn=None,
                shrink=True, label="main", stateful_steps=None):
        """Search `strategy` for a spec on which case_fn raises Violation.

        Deterministic in (VERIF_SEED, shard, label).  At most one failure per
        call (Hypothesis stops at the first); the runner re-runs with that
        failure's signature excluded to look for other root causes.
        """
        import hypothesis
        from hypothesis import HealthCheck, Phase, given, settings

        case_fn = case_fn or self.mod.run_case
        sig_fn = sig_fn or getattr(self.mod, "signature", None)
        ctx = self
        last = {}

        phases = [Phase.generate] + ([Phase.shrink] if shrink else [])
        st = settings(
            max_examples=max_examples,
            database=None,
            deadline=None,
            derandomize=False,
            report_multiple_bugs=False,
            phases=phases,
            suppress_health_check=[HealthCheck.too_slow, HealthCheck.data_too_large,
                                   HealthCheck.large_base_example],
            print_blob=False,
        )

        @hypothesis.seed(sub_seed(self.seed, self.shard, label))
        @st
        @given(strategy)
        def prop(spec):
            if ctx.out_of_time():
                ctx.stats.skipped += 1
                return
            sig = sig_fn(spec) if sig_fn else None
            if ctx.is_excluded(sig):
                ctx.stats.excluded += 1
                return
            t_case = time.time()
            if os.environ.get("VF_TRACE"):
                sys.stderr.write("start %s\n" % json.dumps(spec, default=repr)[:1500])
            try:
                res = case_fn(spec)
            except Violation as v:
                vsig = v.signature if v.signature is not None else sig
                if ctx.is_excluded(vsig):
                    ctx.stats.excluded += 1
                    return
                ctx.stats.evaluations += 1
                last.clear()
                last.update(spec=spec, signature=vsig, msg=v.msg)
                raise
            except Inconclusive:
                ctx.stats.inconclusive += 1
                return
            finally:
                if os.environ.get("VF_TRACE"):
                    sys.stderr.write("case %.2fs %s\n" % (time.time() - t_case, json.dumps(spec, default=repr)[:200]))
            ctx.stats.record(spec, res)

        try:
            prop()
        except Violation:
            f = dict(last)
            f["size"] = len(json.dumps(f["spec"], default=repr))
            f["count"] = 1
            self.stats.failures.append(f)
        except hypothesis.errors.FailedHealthCheck as e:
            raise HarnessError("hypothesis health check: %s" % e)
        except hypothesis.errors.Flaky as e:
            # schedule-dependent failure that did not reproduce identically while
            # shrinking: keep the last failing spec (unshrunk) as the finding
            if not last:
                raise HarnessError("flaky case under hypothesis without a recorded failure: %s" % e)
            f = dict(last)
            f["size"] = len(json.dumps(f["spec"], default=repr))
            f["count"] = 1
            f["flaky"] = True
            self.stats.failures.append(f)
            self.stats.notes.append("hypothesis reported a flaky failure (schedule dependent): %s" % str(e)[:200])
        except BaseException as e:  # unexpected exception out of the harness/case
            if isinstance(e, (KeyboardInterrupt, SystemExit)):
                raise
            raise HarnessError(
                "unexpected %s in case: %s\n%s" % (type(e).__name__, e, traceback.format_exc())
            )


def check_repo_import():
    import joblib

    path = os.path.realpath(joblib.__file__)
    want = os.path.realpath(os.environ.get("VF_REPO", "/repo")) + "/"
    if not path.startswith(want):
        raise HarnessError("joblib imported from %s, not %s" % (path, want))
    return path
