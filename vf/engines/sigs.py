"""E5 - signature and call-shape generator.

A signature spec is a list of [kind, has_default] with kind in
  'po' positional-only, 'pk' positional-or-keyword, 'va' *args,
  'ko' keyword-only, 'vk' **kwargs
in a Python-valid order.  Parameter names are a, b, c, ... in order
('args'/'kw' for the variadic ones).  Defaults are the strings 'd:<name>'.

A call spec is {"npos": k, "kw": [names passed by keyword], "extra": [surplus keyword names]}.
Argument values are sentinels: positional i -> 'p<i>', keyword -> 'k:<name>'.
"""

import importlib
import inspect
import itertools
import os
import sys

NAMES = "abcdefgh"


def enum_signatures(max_params):
    """All valid signature specs with <= max_params parameters."""
    out = []
    for n in range(0, max_params + 1):
        # split n into po, pk, va(0/1), ko, vk(0/1)
        for va in (0, 1):
            for vk in (0, 1):
                rest = n - va - vk
                if rest < 0:
                    continue
                for npo in range(rest + 1):
                    for npk in range(rest - npo + 1):
                        nko = rest - npo - npk
                        npos = npo + npk
                        # defaults among positionals: a suffix (0..npos defaulted)
                        for ndef in range(npos + 1):
                            for kodef in itertools.product((0, 1), repeat=nko):
                                sig = []
                                for i in range(npo):
                                    sig.append(["po", int(i >= npos - ndef)])
                                for i in range(npo, npos):
                                    sig.append(["pk", int(i >= npos - ndef)])
                                if va:
                                    sig.append(["va", 0])
                                for d in kodef:
                                    sig.append(["ko", d])
                                if vk:
                                    sig.append(["vk", 0])
                                out.append(sig)
    return out


def param_names(sig):
    names = []
    i = 0
    for kind, _ in sig:
        if kind == "va":
            names.append("args")
        elif kind == "vk":
            names.append("kw")
        else:
            names.append(NAMES[i])
            i += 1
    return names


def sig_source(sig):
    """Text between the parentheses of a def."""
    names = param_names(sig)
    parts = []
    kinds = [k for k, _ in sig]
    n_po = kinds.count("po")
    seen_star = False
    for idx, ((kind, d), name) in enumerate(zip(sig, names)):
        if kind == "ko" and not seen_star:
            if "va" not in kinds:
                parts.append("*")
            seen_star = True
        if kind == "va":
            parts.append("*args")
            seen_star = True
        elif kind == "vk":
            parts.append("**kw")
        else:
            parts.append(name + ("='d:%s'" % name if d else ""))
        if kind == "po" and idx == n_po - 1:
            parts.append("/")
    return ", ".join(parts)


def enum_calls(sig, max_surplus_pos=2, max_extra_kw=2):
    """Call shapes for a signature, valid by construction (bind re-checks)."""
    names = param_names(sig)
    pos = [(n, k, d) for (k, d), n in zip(sig, names) if k in ("po", "pk")]
    kos = [(n, d) for (k, d), n in zip(sig, names) if k == "ko"]
    has_va = any(k == "va" for k, _ in sig)
    has_vk = any(k == "vk" for k, _ in sig)
    po_names = [n for n, k, _ in pos if k == "po"]
    p = len(pos)
    out = []
    extras_pool = [[]]
    if has_vk:
        cands = ["zz"] + po_names[:1] + ["yy"]
        extras_pool = [[]] + [[c] for c in cands] + [list(c) for c in itertools.combinations(cands, 2)]
        extras_pool = [e for e in extras_pool if len(e) <= max_extra_kw]
    for npos in range(0, p + (max_surplus_pos if has_va else 0) + 1):
        rest = pos[npos:]
        # each remaining positional param: 'kw' (pk only) or 'omit' (needs default)
        opts = []
        ok = True
        for n, k, d in rest:
            o = []
            if k == "pk":
                o.append((n, True))
            if d:
                o.append((n, False))
            if not o:
                ok = False
                break
            opts.append(o)
        if not ok:
            continue
        # python: if npos > p surplus go to *args (only when has_va) - fine
        for n, d in kos:
            o = [(n, True)]
            if d:
                o.append((n, False))
            opts.append(o)
        for choice in itertools.product(*opts):
            kw = [n for n, passed in choice if passed]
            for extra in extras_pool:
                out.append({"npos": npos, "kw": kw, "extra": list(extra)})
    return out


def call_args(call):
    args = tuple("p%d" % i for i in range(call["npos"]))
    kwargs = {n: "k:%s" % n for n in call["kw"]}
    for n in call["extra"]:
        kwargs[n] = "x:%s" % n
    return args, kwargs


_MODULE_COUNTER = [0]


def build_module(sigs, scratch, with_methods=True, body=None, prefix="vfsig", header="", with_async=False):
    """Write one module defining f_<i> (and class K with methods m_<i>) for
    every signature; import it; return (module, [functions], [bound methods])."""
    _MODULE_COUNTER[0] += 1
    name = "%s_%d_%d" % (prefix, os.getpid(), _MODULE_COUNTER[0])
    lines = [header] if header else []
    for i, sig in enumerate(sigs):
        lines.append("def f_%d(%s):\n    %s\n" % (i, sig_source(sig), body or "return dict(locals())"))
    if with_async:
        for i, sig in enumerate(sigs):
            lines.append("async def a_%d(%s):\n    %s\n" % (i, sig_source(sig), body or "return dict(locals())"))
    if with_methods:
        lines.append("class K:\n    def __init__(self, tag=None):\n        self.vf_tag = tag\n")
        for i, sig in enumerate(sigs):
            src = sig_source(sig)
            lines.append("    def m_%d(self%s):\n        %s\n" % (i, (", " + src) if src else "", body or "return dict(locals())"))
    path = os.path.join(scratch, name + ".py")
    with open(path, "w") as f:
        f.write("\n".join(lines))
    if scratch not in sys.path:
        sys.path.insert(0, scratch)
    importlib.invalidate_caches()
    mod = importlib.import_module(name)
    funcs = [getattr(mod, "f_%d" % i) for i in range(len(sigs))]
    meths = []
    inst = None
    if with_methods:
        inst = mod.K()
        meths = [getattr(inst, "m_%d" % i) for i in range(len(sigs))]
    return mod, funcs, meths, inst


def expected_binding(func, args, kwargs):
    """Python's own binding in filter_args' output vocabulary, or None when Python rejects the call.

    The oracle is the interpreter itself: generated functions return dict(locals()), so calling them yields the
    binding (inspect.Signature.bind of Python 3.12 wrongly rejects a keyword named like a positional-only parameter
    that legitimately goes to **kwargs, so bind is only the fallback for functions with another body)."""
    try:
        bound = func(*args, **kwargs)
    except TypeError:
        return None
    sig = inspect.signature(func)
    if not isinstance(bound, dict):
        try:
            ba = sig.bind(*args, **kwargs)
        except TypeError:
            return None
        ba.apply_defaults()
        bound = dict(ba.arguments)
    exp = {}
    for name, prm in sig.parameters.items():
        if prm.kind is prm.VAR_POSITIONAL:
            exp["*"] = list(bound[name])
        elif prm.kind is prm.VAR_KEYWORD:
            exp["**"] = dict(bound[name])
        else:
            exp[name] = bound[name]
    if inspect.ismethod(func):
        self_name = next(iter(inspect.signature(func.__func__).parameters))
        exp = {self_name: func.__self__, **exp}
    return exp
