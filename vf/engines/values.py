"""E4 - typed value universe: JSON-able value specs, builders, canonical form,
deep equality with alias isomorphism, Hypothesis strategies.

Value spec (compact JSON lists):
  ["none"] ["bool", true] ["int", "123"] ["float", "<float.hex>|nan|inf|-inf"]
  ["complex", "<hex re>", "<hex im>"] ["str", "..."] ["bytes", "<hex>"] ["bytearray", "<hex>"]
  ["bytesgen", n, kind, seed]           big payload: kind in zeros|pattern|rand
  ["strgen", n, kind, seed]
  ["tuple", [items]] ["list", [items]] ["set", [items]] ["frozenset", [items]]
  ["dict", [[k, v], ...]]
  ["obj", "P"|"Q", [[attr, spec], ...]]  harness classes (P: __dict__, Q: __slots__ + __reduce__)
  ["ref", i]                            alias of the i-th *mutable* container built so far (pre-order)
"""

import json
import random

from hypothesis import strategies as st


class P:
    """Harness class with a __dict__."""

    def __init__(self, **kw):
        self.__dict__.update(kw)

    def __eq__(self, other):
        return type(other) is P and self.__dict__ == other.__dict__

    __hash__ = None

    def __repr__(self):
        return "P(%r)" % (self.__dict__,)


def _make_q(x, y):
    return Q(x, y)


class Q:
    """Harness class with __slots__ and __reduce__."""

    __slots__ = ("x", "y")

    def __init__(self, x=None, y=None):
        self.x = x
        self.y = y

    def __reduce__(self):
        return (_make_q, (self.x, self.y))

    def __eq__(self, other):
        return type(other) is Q and (self.x, self.y) == (other.x, other.y)

    __hash__ = None

    def __repr__(self):
        return "Q(%r, %r)" % (self.x, self.y)


def gen_bytes(n, kind, seed):
    if kind == "zeros":
        return bytes(n)
    if kind == "pattern":
        pat = bytes((seed + i) % 251 for i in range(17))
        return (pat * (n // 17 + 1))[:n]
    return random.Random(seed).randbytes(n)


def _pfloat(s):
    if s in ("nan", "inf", "-inf"):
        return float(s)
    return float.fromhex(s)


def fhex(f):
    if f != f:
        return "nan"
    if f in (float("inf"), float("-inf")):
        return "inf" if f > 0 else "-inf"
    return f.hex()


def build(spec, perm_seed=None, fresh_strings=False, share_leaves=False, shared=None):
    """Build the Python value of a spec.  perm_seed permutes insertion order of
    every dict/set/frozenset; fresh_strings builds each str at run time from
    pieces (equal but distinct objects)."""
    rnd = random.Random(perm_seed) if perm_seed is not None else None
    mutables = []
    if shared is None:
        shared = {}   # share_leaves: equal str/bytes leaves are one and the same object (optionally across several builds)

    def order(items):
        items = list(items)
        if rnd is not None:
            rnd.shuffle(items)
        return items

    def b(s):
        t = s[0]
        if t == "none":
            return None
        if t == "bool":
            return bool(s[1])
        if t == "int":
            return int(s[1])
        if t == "float":
            return _pfloat(s[1])
        if t == "complex":
            return complex(_pfloat(s[1]), _pfloat(s[2]))
        if t == "str":
            if share_leaves:
                return shared.setdefault(("str", s[1]), "".join([c for c in s[1]]))
            return "".join([c for c in s[1]]) if fresh_strings else s[1]
        if t == "bytes":
            if share_leaves:
                return shared.setdefault(("bytes", s[1]), bytes(bytearray.fromhex(s[1])))
            return bytes(bytearray.fromhex(s[1])) if fresh_strings else bytes.fromhex(s[1])
        if t == "bytearray":
            return bytearray.fromhex(s[1])
        if t == "bytesgen":
            return gen_bytes(s[1], s[2], s[3])
        if t == "strgen":
            return gen_bytes(s[1], s[2], s[3]).decode("latin-1")
        if t == "tuple":
            return tuple(b(x) for x in s[1])
        if t == "frozenset":
            return frozenset(b(x) for x in order(s[1]))
        if t == "list":
            out = []
            mutables.append(out)
            for x in s[1]:
                out.append(b(x))
            return out
        if t == "set":
            out = set()
            mutables.append(out)
            for x in order(s[1]):
                out.add(b(x))
            return out
        if t == "dict":
            out = {}
            mutables.append(out)
            for k, v in order(s[1]):
                out[b(k)] = b(v)
            return out
        if t == "obj":
            if s[1] == "P":
                out = P()
                mutables.append(out)
                for k, v in s[2]:
                    out.__dict__[k] = b(v)
                return out
            # built bottom-up and registered afterwards: an object whose
            # __reduce__ arguments reach the object itself is not picklable
            # by Python at all (outside the domain)
            attrs = dict((k, v) for k, v in s[2])
            x = b(attrs["x"]) if "x" in attrs else None
            y = b(attrs["y"]) if "y" in attrs else None
            out = Q(x, y)
            mutables.append(out)
            return out
        if t == "ref":
            if not mutables:
                return None
            return mutables[s[1] % len(mutables)]
        raise ValueError("bad spec %r" % (s,))

    return b(spec)


def canon(spec):
    """Order-insensitive, type-tagged canonical form of a (ref-free) spec, as a
    JSON string.  Same value <=> same canon."""

    def c(s):
        t = s[0]
        if t in ("set", "frozenset"):
            return [t, sorted((c(x) for x in s[1]), key=_key)]
        if t == "dict":
            return [t, sorted(([c(k), c(v)] for k, v in s[1]), key=_key)]
        if t in ("tuple", "list"):
            return [t, [c(x) for x in s[1]]]
        if t == "obj":
            return [t, s[1], sorted(([k, c(v)] for k, v in s[2]), key=_key)]
        if t == "bytesgen":
            return ["bytes", gen_bytes(s[1], s[2], s[3]).hex()]
        if t == "strgen":
            return ["str", gen_bytes(s[1], s[2], s[3]).decode("latin-1")]
        if t == "int":
            return ["int", str(int(s[1]))]
        return list(s)

    return json.dumps(c(spec), sort_keys=True)


def _key(x):
    return json.dumps(x, sort_keys=True)


# ---- deep equality with alias isomorphism -------------------------------------

_MUT = (list, dict, set, bytearray, P, Q)


def deep_eq(a, b):
    """Type-exact structural equality, NaN by bit pattern, and the aliasing
    graph of mutable nodes must be isomorphic (same sharing, same cycles).
    Returns None when equal, else a short reason."""
    fwd, bwd = {}, {}

    def eq(x, y, path):
        if type(x) is not type(y):
            return "%s: type %s != %s" % (path, type(x).__name__, type(y).__name__)
        if isinstance(x, _MUT):
            ix, iy = id(x), id(y)
            if ix in fwd or iy in bwd:
                if fwd.get(ix) != iy or bwd.get(iy) != ix:
                    return "%s: aliasing differs" % path
                return None
            fwd[ix] = iy
            bwd[iy] = ix
        if isinstance(x, float):
            if x.hex() != y.hex() and not (x != x and y != y):
                return "%s: %r != %r" % (path, x, y)
            return None
        if isinstance(x, complex):
            return eq(x.real, y.real, path + ".re") or eq(x.imag, y.imag, path + ".im")
        if isinstance(x, (tuple, list)):
            if len(x) != len(y):
                return "%s: len %d != %d" % (path, len(x), len(y))
            for i, (p, q) in enumerate(zip(x, y)):
                r = eq(p, q, "%s[%d]" % (path, i))
                if r:
                    return r
            return None
        if isinstance(x, dict):
            if len(x) != len(y):
                return "%s: dict len %d != %d" % (path, len(x), len(y))
            # keys are hashable immutables: match by equality then compare exactly
            ykeys = {k: k for k in y}
            for k, v in x.items():
                if k not in ykeys:
                    return "%s: key %r missing" % (path, k)
                r = eq(k, ykeys[k], "%s<key %r>" % (path, k)) or eq(v, y[k], "%s[%r]" % (path, k))
                if r:
                    return r
            return None
        if isinstance(x, (set, frozenset)):
            if len(x) != len(y):
                return "%s: set len %d != %d" % (path, len(x), len(y))
            ymap = {k: k for k in y}
            for k in x:
                if k not in ymap:
                    return "%s: element %r missing" % (path, k)
                r = eq(k, ymap[k], "%s<elem %r>" % (path, k))
                if r:
                    return r
            return None
        if isinstance(x, P):
            return eq(x.__dict__, y.__dict__, path + ".__dict__")
        if isinstance(x, Q):
            return eq(x.x, y.x, path + ".x") or eq(x.y, y.y, path + ".y")
        if x != y:
            return "%s: %r != %r" % (path, x if len(repr(x)) < 60 else type(x), y if len(repr(y)) < 60 else type(y))
        return None

    return eq(a, b, "$")


# ---- strategies -----------------------------------------------------------------

INTS = [0, 1, -1, 2, 255, 256, 2 ** 31, -(2 ** 31), 2 ** 63, -(2 ** 63), 2 ** 100, 10 ** 30]
FLOATS = [0.0, -0.0, 1.0, 0.1, -1.0, 2.0, float("inf"), float("-inf"), float("nan"), 1e300, 5e-324]
STRS = ["", "a", "b", "1", "ab", "a\x00", "é", "\U0001f600", "None", "True"]


def leaf(hashable=False, nan_ok=True, rich=True):
    floats = [f for f in FLOATS if nan_ok or f == f]
    opts = [
        st.just(["none"]),
        st.booleans().map(lambda v: ["bool", v]),
        (st.sampled_from(INTS) | st.integers(-5, 5)).map(lambda v: ["int", str(v)]),
        st.sampled_from(floats).map(lambda f: ["float", fhex(f)]),
        (st.sampled_from(STRS) | st.text(alphabet="ab1é", max_size=3)).map(lambda s: ["str", s]),
        (st.sampled_from([b"", b"a", b"1", b"ab", b"\x00"]) | st.binary(max_size=3)).map(lambda x: ["bytes", x.hex()]),
    ]
    if rich:
        opts.append(st.tuples(st.sampled_from([0.0, 1.0, -0.0]), st.sampled_from([0.0, 1.0, 2.0])).map(
            lambda t: ["complex", fhex(t[0]), fhex(t[1])]))
    if not hashable:
        opts.append(st.sampled_from([b"", b"a", b"1"]).map(lambda x: ["bytearray", x.hex()]))
    return st.one_of(opts)


def _py_key(spec):
    """Python-level value of a hashable spec (to dedupe by == / hash)."""
    return build(spec)


def dedupe(items, key=lambda s: s):
    """Keep only items whose Python value is not == to an earlier one."""
    seen = set()
    out = []
    for it in items:
        v = _py_key(key(it))
        if v in seen:
            continue
        seen.add(v)
        out.append(it)
    return out


def hashable_values(max_leaves=6, nan_ok=False):
    """Specs of hashable values: scalars, tuples and frozensets of hashables."""
    return st.recursive(
        leaf(hashable=True, nan_ok=nan_ok),
        lambda ch: st.one_of(
            st.lists(ch, max_size=3).map(lambda xs: ["tuple", xs]),
            st.lists(ch, max_size=3).map(lambda xs: ["frozenset", dedupe(xs)]),
        ),
        max_leaves=max_leaves,
    )


def values(max_leaves=12, objects=True, nan_keys=False, extra_leaves=None):
    """Specs of arbitrary values (no aliasing)."""
    hv = hashable_values()
    base = leaf() if extra_leaves is None else st.one_of(leaf(), extra_leaves)

    def extend(ch):
        opts = [
            st.lists(ch, max_size=4).map(lambda xs: ["tuple", xs]),
            st.lists(ch, max_size=4).map(lambda xs: ["list", xs]),
            st.lists(hv, max_size=4).map(lambda xs: ["set", dedupe(xs)]),
            st.lists(hv, max_size=4).map(lambda xs: ["frozenset", dedupe(xs)]),
            st.lists(st.tuples(hv, ch), max_size=4).map(
                lambda kvs: ["dict", [list(kv) for kv in dedupe(kvs, key=lambda kv: kv[0])]]),
        ]
        if objects:
            opts.append(st.lists(st.tuples(st.sampled_from(["u", "v", "w"]), ch), max_size=3, unique_by=lambda kv: kv[0]).map(
                lambda kvs: ["obj", "P", [list(kv) for kv in kvs]]))
            opts.append(st.tuples(ch, ch).map(lambda t: ["obj", "Q", [["x", t[0]], ["y", t[1]]]]))
        return st.one_of(opts)

    return st.recursive(base, extend, max_leaves=max_leaves)


def big_payloads():
    sizes = [8190, 8191, 8192, 8193, 8194, 16383, 16384, 16385, 65535, 65536, 65537, 3 * 8192 - 1, 3 * 8192 + 1,
             2 ** 20 - 1, 2 ** 20, 2 ** 20 + 1]
    n = st.sampled_from(sizes) | st.integers(0, 70000)
    return st.tuples(st.sampled_from(["bytesgen", "strgen"]), n, st.sampled_from(["zeros", "pattern", "rand"]),
                     st.integers(0, 1000)).map(list)


# ---- tree utilities -------------------------------------------------------------

def nodes(spec, path=()):
    """Yield (path, node) for every node of a spec (pre-order)."""
    yield path, spec
    t = spec[0]
    if t in ("tuple", "list", "set", "frozenset"):
        for i, x in enumerate(spec[1]):
            yield from nodes(x, path + (1, i))
    elif t == "dict":
        for i, (k, v) in enumerate(spec[1]):
            yield from nodes(k, path + (1, i, 0))
            yield from nodes(v, path + (1, i, 1))
    elif t == "obj":
        for i, (k, v) in enumerate(spec[2]):
            yield from nodes(v, path + (2, i, 1))


def replace_at(spec, path, new):
    if not path:
        return new
    spec = list(spec)
    cur = spec
    for p in path[:-1]:
        cur[p] = list(cur[p])
        cur = cur[p]
    cur[path[-1]] = new
    return spec


def count_nodes(spec):
    return sum(1 for _ in nodes(spec))


def has_unordered(spec, min_items=2):
    return any(n[0] in ("set", "frozenset", "dict") and len(n[1]) >= min_items for _, n in nodes(spec))
