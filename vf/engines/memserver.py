"""Second interpreter for the Memory checks: executes cached calls against a shared
cache directory.  JSON lines on stdin/stdout."""
import importlib
import json
import sys
import warnings


def main():
    warnings.simplefilter("ignore")
    import logging
    logging.disable(logging.CRITICAL)
    import joblib
    from vf.engines import memfuncs as MF
    from vf.engines import values as V

    assert joblib.__file__.startswith("/repo/"), joblib.__file__
    for line in sys.stdin:
        req = json.loads(line)
        out = {}
        try:
            if req["scratch"] not in sys.path:
                sys.path.insert(0, req["scratch"])
            importlib.invalidate_caches()
            mod = importlib.import_module(req["module"])
            MF.IGNORE.clear()
            MF.IGNORE.update({k: set(v) for k, v in req["ignore"].items()})
            if req["carrier"] == "f":
                func = getattr(mod, "f_%d" % req["f"])
            else:
                func = getattr(mod.K("A" if req["carrier"] == "mA" else "B"), "m_%d" % req["f"])
            mem = joblib.Memory(req["location"], compress=req["compress"], verbose=0)
            wrapped = mem.cache(func, ignore=list(req["jl_ignore"]))
            args = [V.build(a, perm_seed=req["perm"]) for a in req["args"]]
            kwargs = {k: V.build(v, perm_seed=req["perm"]) for k, v in req["kwargs"].items()}
            before = len(MF.EXEC_LOG)
            val = wrapped(*args, **kwargs)
            out = {"value": list(val) if isinstance(val, tuple) else repr(val), "executed": len(MF.EXEC_LOG) - before}
        except Exception as e:
            out = {"raised": "%s: %s" % (type(e).__name__, str(e)[:300])}
        sys.stdout.write(json.dumps(out) + "\n")
        sys.stdout.flush()


if __name__ == "__main__":
    main()
