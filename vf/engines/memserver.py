"""Second interpreter for the Memory checks: executes cached calls against a shared
cache directory.  JSON lines on stdin/stdout."""
import importlib
import json
import os
import sys
import warnings


def main():
    warnings.simplefilter("ignore")
    import logging
    logging.disable(logging.CRITICAL)
    import joblib
    from vf.engines import memfuncs as MF
    from vf.engines import values as V

    import os
    assert joblib.__file__.startswith(os.path.realpath(os.environ.get("VF_REPO", "/repo")) + "/"), joblib.__file__
    for line in sys.stdin:
        # every request is served by a child forked from this pristine parent (joblib imported, Memory never used):
        # the property speaks of FRESH processes, so no in-memory joblib state may survive from one request to the next
        r, w = os.pipe()
        pid = os.fork()
        if pid == 0:
            os.close(r)
            try:
                out = handle(json.loads(line), joblib, MF, V)
            except BaseException as e:
                out = {"raised": "server-child %s: %s" % (type(e).__name__, str(e)[:300])}
            os.write(w, json.dumps(out).encode())
            os._exit(0)
        os.close(w)
        chunks = []
        while True:
            b = os.read(r, 65536)
            if not b:
                break
            chunks.append(b)
        os.close(r)
        os.waitpid(pid, 0)
        sys.stdout.write((b"".join(chunks).decode() or json.dumps({"raised": "server child died"})) + "\n")
        sys.stdout.flush()


def handle(req, joblib, MF, V):
    import importlib
    try:
        if req["scratch"] not in sys.path:
            sys.path.insert(0, req["scratch"])
        importlib.invalidate_caches()
        mod = importlib.import_module(req["module"])
        MF.IGNORE.clear()
        MF.IGNORE.update({k: set(v) for k, v in req["ignore"].items()})
        is_async = req["carrier"] == "as"
        if req["carrier"] == "f":
            func = getattr(mod, "f_%d" % req["f"])
        elif is_async:
            func = getattr(mod, "a_%d" % req["f"])
        elif req["carrier"] in ("pA", "pB"):
            import functools
            func = functools.partial(getattr(mod, "f_%d" % req["f"]), "bound-" + req["carrier"])
        else:
            func = getattr(mod.K("A" if req["carrier"] == "mA" else "B"), "m_%d" % req["f"])
        if req.get("verbose"):
            # joblib's progress messages must not reach the protocol channel
            devnull = os.open(os.devnull, os.O_WRONLY)
            os.dup2(devnull, 1)
            sys.stdout = open(os.devnull, "w")
        mem = joblib.Memory(req["location"], compress=req["compress"], verbose=req.get("verbose", 0))
        wrapped = mem.cache(func, ignore=list(req["jl_ignore"]))
        if req.get("via_pickle") and req["carrier"] == "f":
            import pickle
            wrapped = pickle.loads(pickle.dumps(wrapped))
        args = [V.build(a, perm_seed=req["perm"]) for a in req["args"]]
        kwargs = {k: V.build(v, perm_seed=req["perm"]) for k, v in req["kwargs"].items()}
        before = len(MF.EXEC_LOG)
        if is_async:
            import asyncio
            val = asyncio.run(wrapped(*args, **kwargs))
        else:
            val = wrapped(*args, **kwargs)
        return {"value": list(val) if isinstance(val, tuple) else repr(val), "executed": len(MF.EXEC_LOG) - before}
    except Exception as e:
        return {"raised": "%s: %s" % (type(e).__name__, str(e)[:300])}


if __name__ == "__main__":
    main()
