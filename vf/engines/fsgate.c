/* fsgate.so - LD_PRELOAD interposer on libc file-system calls (engine E3).
 *
 * Inert until armed through fsgate_arm() (called with ctypes in a forked child).
 * Only calls that touch a path under `root` (or a descriptor opened under it) are events.
 *
 *  mode 1 LOG   : every *mutation* event is appended to logfd as "k kind len path\n"
 *  mode 2 CRASH : before mutation event number kill_at the process SIGKILLs itself; when that
 *                 event is a write and tear > 0, the first `tear` bytes are written first
 *  mode 3 TURN  : every event (reads included) first posts "id kind path\n" on reqfd and blocks
 *                 reading one byte from grantfd (turn-based scheduling by the harness)
 *
 * Build: gcc -shared -fPIC -O2 -o build/fsgate.so vf/engines/fsgate.c -ldl -lpthread
 */
#define _GNU_SOURCE
#include <dlfcn.h>
#include <dirent.h>
#include <errno.h>
#include <fcntl.h>
#include <limits.h>
#include <signal.h>
#include <stdarg.h>
#include <stdio.h>
#include <stdlib.h>
#include <string.h>
#include <sys/stat.h>
#include <sys/types.h>
#include <sys/uio.h>
#include <unistd.h>

#define MAXFD 4096

static volatile int g_mode = 0;
static char g_root[PATH_MAX];
static size_t g_rootlen = 0;
static volatile long g_count = 0;
static long g_kill_at = -1;
static long g_tear = 0;
static int g_logfd = -1;
static int g_reqfd = -1, g_grantfd = -1, g_id = 0;
static __thread int t_grantfd = -1, t_id = -1;   /* per-thread participant (threads of one process), see fsgate_thread() */
static unsigned char g_tracked[MAXFD];   /* 1 = file opened for writing under root, 2 = directory under root */
static char *g_path[MAXFD];              /* path a tracked file descriptor was opened with */
static __thread int in_hook = 0;

#define REAL(name) static __typeof__(name) *real_##name = NULL; if (!real_##name) real_##name = dlsym(RTLD_NEXT, #name)

static ssize_t raw_write(int fd, const void *buf, size_t n) {
    static ssize_t (*rw)(int, const void *, size_t) = NULL;
    if (!rw) rw = dlsym(RTLD_NEXT, "write");
    return rw(fd, buf, n);
}

static int under_root(const char *path) {
    if (!g_mode || !path) return 0;
    if (path[0] != '/') return 0;
    return strncmp(path, g_root, g_rootlen) == 0 && (path[g_rootlen] == '/' || path[g_rootlen] == 0);
}

/* resolve (dirfd, path) to an absolute path when dirfd is a tracked directory */
static const char *resolve(int dirfd, const char *path, char *buf) {
    if (!path) return NULL;
    if (path[0] == '/') return path;
    if (dirfd == AT_FDCWD) return NULL;
    if (dirfd < 0 || dirfd >= MAXFD || g_tracked[dirfd] != 2) return NULL;
    char link[64], dir[PATH_MAX];
    snprintf(link, sizeof link, "/proc/self/fd/%d", dirfd);
    ssize_t n = readlink(link, dir, sizeof dir - 1);
    if (n <= 0) return NULL;
    dir[n] = 0;
    snprintf(buf, PATH_MAX, "%s/%s", dir, path);
    return buf;
}

static void die_now(void) {
    kill(getpid(), SIGKILL);
    for (;;) pause();
}

/* a mutation event; returns the number of bytes to write for a torn write (>0) or 0 */
static long mutation(const char *kind, const char *path, long len) {
    long k = __sync_add_and_fetch(&g_count, 1);
    if (g_logfd >= 0) {
        char line[PATH_MAX + 64];
        int n = snprintf(line, sizeof line, "%ld %s %ld %s\n", k, kind, len, path ? path : "?");
        raw_write(g_logfd, line, n);
    }
    if (g_mode == 2 && k == g_kill_at) {
        if (g_tear > 0 && len > 1 && strcmp(kind, "write") == 0)
            return g_tear < len ? g_tear : len - 1;
        die_now();
    }
    return 0;
}

static void turn(const char *kind, const char *path) {
    if (g_mode != 3 || g_reqfd < 0) return;
    int id = t_id >= 0 ? t_id : g_id;
    int grantfd = t_id >= 0 ? t_grantfd : g_grantfd;
    if (grantfd < 0) return;    /* a thread that is not a participant runs free */
    char line[PATH_MAX + 64];
    int n = snprintf(line, sizeof line, "%d %s %s\n", id, kind, path ? path : "?");
    if (n > 4000) n = 4000, line[n - 1] = '\n';
    raw_write(g_reqfd, line, n);
    char c;
    static ssize_t (*rr)(int, void *, size_t) = NULL;
    if (!rr) rr = dlsym(RTLD_NEXT, "read");
    while (rr(grantfd, &c, 1) < 0 && errno == EINTR) {}
}

static void event(const char *kind, const char *path, int is_mutation) {
    if (in_hook) return;
    in_hook = 1;
    if (g_mode == 3) turn(kind, path);
    else if (is_mutation) mutation(kind, path, 0);
    in_hook = 0;
}

/* ---- exported control ------------------------------------------------------------ */
void fsgate_arm(const char *root, int mode, long kill_at, long tear, int logfd, int reqfd, int grantfd, int id) {
    strncpy(g_root, root, sizeof g_root - 1);
    g_rootlen = strlen(g_root);
    while (g_rootlen > 1 && g_root[g_rootlen - 1] == '/') g_root[--g_rootlen] = 0;
    g_kill_at = kill_at; g_tear = tear; g_logfd = logfd; g_reqfd = reqfd; g_grantfd = grantfd; g_id = id;
    g_count = 0;
    memset(g_tracked, 0, sizeof g_tracked);
    __sync_synchronize();
    g_mode = mode;
}
void fsgate_disarm(void) { g_mode = 0; }
/* make the calling thread participant `id` of the turn-based schedule (threads of one armed process) */
void fsgate_thread(int id, int grantfd) { t_id = id; t_grantfd = grantfd; }
long fsgate_count(void) { return g_count; }

/* ---- open family --------------------------------------------------------------------- */
static int do_open(int (*fn)(int, const char *, int, mode_t), int dirfd, const char *path, int flags, mode_t mode) {
    char buf[PATH_MAX];
    const char *abs = g_mode ? resolve(dirfd, path, buf) : NULL;
    int hit = abs && under_root(abs);
    if (hit) {
        int creates = (flags & (O_CREAT | O_TRUNC)) != 0;
        if (g_mode == 3) event((flags & O_ACCMODE) == O_RDONLY && !creates ? "open-r" : "open-w", abs, 0);
        else if (creates) event("open-create", abs, 1);
    }
    int fd = fn(dirfd, path, flags, mode);
    if (hit && fd >= 0 && fd < MAXFD) {
        if (flags & O_DIRECTORY) g_tracked[fd] = 2;
        else if ((flags & O_ACCMODE) != O_RDONLY) { g_tracked[fd] = 1; free(g_path[fd]); g_path[fd] = strdup(abs); }
        else {
            struct stat st;
            g_tracked[fd] = (fstat(fd, &st) == 0 && S_ISDIR(st.st_mode)) ? 2 : 0;
        }
    }
    return fd;
}
static int call_openat(int dirfd, const char *path, int flags, mode_t mode) { REAL(openat); return real_openat(dirfd, path, flags, mode); }
static int call_openat64(int dirfd, const char *path, int flags, mode_t mode) { REAL(openat64); return real_openat64(dirfd, path, flags, mode); }

int open(const char *path, int flags, ...) {
    mode_t mode = 0; if (flags & (O_CREAT | O_TMPFILE)) { va_list ap; va_start(ap, flags); mode = va_arg(ap, mode_t); va_end(ap); }
    return do_open(call_openat, AT_FDCWD, path, flags, mode);
}
int open64(const char *path, int flags, ...) {
    mode_t mode = 0; if (flags & (O_CREAT | O_TMPFILE)) { va_list ap; va_start(ap, flags); mode = va_arg(ap, mode_t); va_end(ap); }
    return do_open(call_openat64, AT_FDCWD, path, flags, mode);
}
int openat(int dirfd, const char *path, int flags, ...) {
    mode_t mode = 0; if (flags & (O_CREAT | O_TMPFILE)) { va_list ap; va_start(ap, flags); mode = va_arg(ap, mode_t); va_end(ap); }
    return do_open(call_openat, dirfd, path, flags, mode);
}
int openat64(int dirfd, const char *path, int flags, ...) {
    mode_t mode = 0; if (flags & (O_CREAT | O_TMPFILE)) { va_list ap; va_start(ap, flags); mode = va_arg(ap, mode_t); va_end(ap); }
    return do_open(call_openat64, dirfd, path, flags, mode);
}
int close(int fd) {
    REAL(close);
    if (fd >= 0 && fd < MAXFD) g_tracked[fd] = 0;
    return real_close(fd);
}

/* ---- writes ------------------------------------------------------------------------------ */
ssize_t write(int fd, const void *buf, size_t n) {
    if (g_mode && !in_hook && fd >= 0 && fd < MAXFD && g_tracked[fd] == 1) {
        in_hook = 1;
        if (g_mode == 3) { turn("write", g_path[fd] ? g_path[fd] : "<fd>"); in_hook = 0; }
        else {
            long tear = mutation("write", g_path[fd] ? g_path[fd] : "<fd>", (long)n);
            in_hook = 0;
            if (tear > 0) { raw_write(fd, buf, (size_t)tear); die_now(); }
        }
    }
    return raw_write(fd, buf, n);
}
ssize_t pwrite64(int fd, const void *buf, size_t n, off64_t off) {
    REAL(pwrite64);
    if (g_mode && !in_hook && fd >= 0 && fd < MAXFD && g_tracked[fd] == 1) event("write", "<fd>", 1);
    return real_pwrite64(fd, buf, n, off);
}
ssize_t writev(int fd, const struct iovec *iov, int cnt) {
    REAL(writev);
    if (g_mode && !in_hook && fd >= 0 && fd < MAXFD && g_tracked[fd] == 1) event("write", "<fd>", 1);
    return real_writev(fd, iov, cnt);
}
int ftruncate64(int fd, off64_t len) {
    REAL(ftruncate64);
    if (g_mode && !in_hook && fd >= 0 && fd < MAXFD && g_tracked[fd] == 1) event("ftruncate", "<fd>", 1);
    return real_ftruncate64(fd, len);
}
int ftruncate(int fd, off_t len) {
    REAL(ftruncate);
    if (g_mode && !in_hook && fd >= 0 && fd < MAXFD && g_tracked[fd] == 1) event("ftruncate", "<fd>", 1);
    return real_ftruncate(fd, len);
}

/* ---- namespace mutations -------------------------------------------------------------------- */
int rename(const char *a, const char *b) {
    REAL(rename);
    if (under_root(a) || under_root(b)) event("rename", b, 1);
    return real_rename(a, b);
}
int renameat(int ad, const char *a, int bd, const char *b) {
    REAL(renameat);
    char b1[PATH_MAX], b2[PATH_MAX];
    const char *pa = g_mode ? resolve(ad, a, b1) : NULL, *pb = g_mode ? resolve(bd, b, b2) : NULL;
    if ((pa && under_root(pa)) || (pb && under_root(pb))) event("rename", pb ? pb : pa, 1);
    return real_renameat(ad, a, bd, b);
}
int renameat2(int ad, const char *a, int bd, const char *b, unsigned int flags) {
    REAL(renameat2);
    char b1[PATH_MAX], b2[PATH_MAX];
    const char *pa = g_mode ? resolve(ad, a, b1) : NULL, *pb = g_mode ? resolve(bd, b, b2) : NULL;
    if ((pa && under_root(pa)) || (pb && under_root(pb))) event("rename", pb ? pb : pa, 1);
    return real_renameat2(ad, a, bd, b, flags);
}
int unlink(const char *p) {
    REAL(unlink);
    if (under_root(p)) event("unlink", p, 1);
    return real_unlink(p);
}
int unlinkat(int d, const char *p, int flags) {
    REAL(unlinkat);
    char b[PATH_MAX];
    const char *abs = g_mode ? resolve(d, p, b) : NULL;
    if (abs && under_root(abs)) event((flags & AT_REMOVEDIR) ? "rmdir" : "unlink", abs, 1);
    return real_unlinkat(d, p, flags);
}
int rmdir(const char *p) {
    REAL(rmdir);
    if (under_root(p)) event("rmdir", p, 1);
    return real_rmdir(p);
}
int mkdir(const char *p, mode_t m) {
    REAL(mkdir);
    if (under_root(p)) event("mkdir", p, 1);
    return real_mkdir(p, m);
}
int mkdirat(int d, const char *p, mode_t m) {
    REAL(mkdirat);
    char b[PATH_MAX];
    const char *abs = g_mode ? resolve(d, p, b) : NULL;
    if (abs && under_root(abs)) event("mkdir", abs, 1);
    return real_mkdirat(d, p, m);
}
int truncate64(const char *p, off64_t len) {
    REAL(truncate64);
    if (under_root(p)) event("truncate", p, 1);
    return real_truncate64(p, len);
}

/* ---- reads: only events in TURN mode ------------------------------------------------------------ */
#define READ_EVENT(kind, abs) do { if (g_mode == 3 && (abs) && under_root(abs)) event(kind, abs, 0); } while (0)

int stat(const char *p, struct stat *st) { REAL(stat); READ_EVENT("stat", p); return real_stat(p, st); }
int stat64(const char *p, struct stat64 *st) { REAL(stat64); READ_EVENT("stat", p); return real_stat64(p, st); }
int lstat(const char *p, struct stat *st) { REAL(lstat); READ_EVENT("stat", p); return real_lstat(p, st); }
int lstat64(const char *p, struct stat64 *st) { REAL(lstat64); READ_EVENT("stat", p); return real_lstat64(p, st); }
int fstatat(int d, const char *p, struct stat *st, int f) {
    REAL(fstatat);
    if (g_mode == 3) { char b[PATH_MAX]; const char *abs = resolve(d, p, b); READ_EVENT("stat", abs); }
    return real_fstatat(d, p, st, f);
}
int fstatat64(int d, const char *p, struct stat64 *st, int f) {
    REAL(fstatat64);
    if (g_mode == 3) { char b[PATH_MAX]; const char *abs = resolve(d, p, b); READ_EVENT("stat", abs); }
    return real_fstatat64(d, p, st, f);
}
int statx(int d, const char *p, int f, unsigned int mask, struct statx *sx) {
    REAL(statx);
    if (g_mode == 3) { char b[PATH_MAX]; const char *abs = resolve(d, p, b); READ_EVENT("stat", abs); }
    return real_statx(d, p, f, mask, sx);
}
int access(const char *p, int m) { REAL(access); READ_EVENT("access", p); return real_access(p, m); }
int faccessat(int d, const char *p, int m, int f) {
    REAL(faccessat);
    if (g_mode == 3) { char b[PATH_MAX]; const char *abs = resolve(d, p, b); READ_EVENT("access", abs); }
    return real_faccessat(d, p, m, f);
}
DIR *opendir(const char *p) { REAL(opendir); READ_EVENT("opendir", p); return real_opendir(p); }
