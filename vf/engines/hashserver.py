"""Persistent hash server: one interpreter (with its own PYTHONHASHSEED) that
rebuilds value specs and returns joblib.hash digests.  JSON lines on stdin/stdout."""
import json
import sys


def main():
    import joblib
    from vf.engines.values import build

    import os
    assert joblib.__file__.startswith(os.path.realpath(os.environ.get("VF_REPO", "/repo")) + "/"), joblib.__file__
    out = sys.stdout
    for line in sys.stdin:
        reqs = json.loads(line)
        res = []
        for r in reqs:
            try:
                v = build(r["spec"], perm_seed=r.get("perm"), fresh_strings=r.get("fresh", False), share_leaves=r.get("share", False))
                res.append({"md5": joblib.hash(v), "sha1": joblib.hash(v, hash_name="sha1")})
            except Exception as e:
                res.append({"error": "%s: %s" % (type(e).__name__, e)})
        out.write(json.dumps(res) + "\n")
        out.flush()


if __name__ == "__main__":
    main()
