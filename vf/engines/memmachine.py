"""E6 - Memory reference-model machine shared by C02 and C06.

A spec holds 1-4 generated signatures (E5), per-function ignore lists, Memory
settings and a list of steps (calls in drawn spellings through the wrapper, a
shelved reference, check_call_in_cache, another interpreter with a different
PYTHONHASHSEED, clear / reduce_size).  run(spec) executes it and returns one
record per step; c02 judges the values, c06 the executions / hit tests / raises.
"""

import asyncio
import contextlib
import functools
import io
import pickle
import inspect
import json
import os
import shutil
import subprocess
import sys
import warnings

from hypothesis import strategies as st

from . import memfuncs as MF
from . import sigs as S
from . import values as V

HEADER = "from vf.engines.memfuncs import _vf_body\n"
BODY = "return _vf_body(locals())"

POOL = [
    ["int", "1"], ["float", V.fhex(1.0)], ["bool", True], ["str", "1"], ["bytes", "31"],
    ["tuple", [["int", "1"]]], ["list", [["int", "1"]]], ["set", [["int", "1"]]], ["frozenset", [["int", "1"]]],
    ["none"], ["int", "0"], ["float", V.fhex(0.0)], ["bool", False], ["str", ""], ["bytes", ""], ["str", "a"], ["bytes", "61"],
    ["dict", [[["str", "a"], ["int", "1"]], [["str", "b"], ["int", "2"]]]],
    ["dict", [[["str", "a"], ["int", "1"]], [["str", "b"], ["float", V.fhex(2.0)]]]],
    ["dict", [[["int", "1"], ["str", "a"]], [["str", "1"], ["str", "a"]]]],
    ["set", [["int", "1"], ["int", "2"], ["int", "3"]]], ["list", [["int", "1"], ["int", "2"], ["int", "3"]]],
    ["tuple", [["int", "1"], ["int", "2"], ["int", "3"]]], ["frozenset", [["str", "a"], ["str", "b"], ["str", "c"], ["str", "d"]]],
    ["set", [["str", "a"], ["str", "b"], ["str", "c"], ["str", "d"]]],
    ["str", "d:a"], ["str", "d:b"], ["str", "d:c"], ["str", "d:d"], ["str", "p0"],
    ["dict", [[["frozenset", [["int", "1"]]], ["str", "a"]], [["frozenset", [["int", "2"]]], ["str", "b"]]]],
    ["list", [["list", []], ["tuple", []]]], ["int", str(2 ** 63)], ["float", "nan"],
    ["bytes", "6162"], ["bytes", "6162"], ["bytes", "000102"], ["str", "ab"], ["list", [["bytes", "6162"], ["bytes", "6162"]]],
]


FAMILIES = [
    [["int", "1"], ["float", V.fhex(1.0)], ["bool", True], ["str", "1"], ["bytes", "31"]],
    [["tuple", [["int", "1"]]], ["list", [["int", "1"]]], ["set", [["int", "1"]]], ["frozenset", [["int", "1"]]]],
    [["int", "0"], ["float", V.fhex(0.0)], ["bool", False], ["str", ""], ["bytes", ""], ["none"]],
    [["set", [["int", "1"], ["int", "2"], ["int", "3"]]], ["list", [["int", "1"], ["int", "2"], ["int", "3"]]],
     ["tuple", [["int", "1"], ["int", "2"], ["int", "3"]]]],
    [["str", "a"], ["bytes", "61"]],
    [["dict", [[["str", "a"], ["int", "1"]], [["str", "b"], ["int", "2"]]]],
     ["dict", [[["str", "a"], ["int", "1"]], [["str", "b"], ["float", V.fhex(2.0)]]]]],
    [["frozenset", [["str", "a"], ["str", "b"], ["str", "c"], ["str", "d"]]], ["set", [["str", "a"], ["str", "b"], ["str", "c"], ["str", "d"]]]],
]


def family_of(v):
    for fam in FAMILIES:
        if v in fam:
            return fam
    return None


def value_specs():
    return st.one_of(st.sampled_from(POOL), st.sampled_from(POOL), V.values(max_leaves=4, objects=False))


@st.composite
def specs(draw, max_steps=25, server=True):
    n_f = draw(st.integers(1, 2))
    all_sigs = S.enum_signatures(4)
    sigs, ignores = [], []
    for _ in range(n_f):
        sig = draw(st.sampled_from(all_sigs).filter(lambda s: 1 <= len(s)))
        names = S.param_names(sig)
        cands = [n for (k, _), n in zip(sig, names) if k in ("po", "pk", "ko")]
        cands += ["*"] if any(k == "va" for k, _ in sig) else []
        cands += ["**"] if any(k == "vk" for k, _ in sig) else []
        ign = draw(st.lists(st.sampled_from(cands), max_size=2, unique=True)) if cands and draw(st.booleans()) else []
        sigs.append(sig)
        ignores.append(sorted(ign))
    steps = []
    ops = ["call"] * 8 + ["shelve", "check", "check"] + (["server", "server"] if server else []) + ["clear_all", "clear_f", "reduce0", "reduce_big"]
    # a small bank of argument vectors per function so that repeats (hits) are the norm
    banks = []
    for sig in sigs:
        names = S.param_names(sig)
        bank = []
        for bi in range(draw(st.integers(2, 5))):
            if bank and (bi == 1 or draw(st.integers(0, 2)) > 0):
                # near-colliding sibling of an earlier vector: one argument retyped within its family
                src = draw(st.sampled_from(bank))
                vals = list(src["vals"])
                cand = [i for i, v in enumerate(vals) if v != "DEFAULT"]
                named_kd = [(k, d) for k, d in sig if k not in ("va", "vk")]
                with_default = [i for i, (k, d) in enumerate(named_kd) if d]
                elsewhere = [v for v in vals if v != "DEFAULT"] + list(src["xpos"]) + [v for _, v in src["xkw"]]
                ko_def = [i for i, (k, d) in enumerate(named_kd) if d and k == "ko"]
                if ko_def and src["xpos"] and draw(st.integers(0, 1)) == 0:
                    # f(1, 5, 7) vs f(1, 5, 7, scale=5): a keyword-only default against the surplus positional of the same rank
                    j = draw(st.integers(0, len(ko_def) - 1))
                    i = ko_def[j]
                    vals[i] = "DEFAULT" if vals[i] != "DEFAULT" else src["xpos"][min(j, len(src["xpos"]) - 1)]
                    bank.append({"vals": vals, "xpos": src["xpos"], "xkw": src["xkw"]})
                    continue
                if with_default and elsewhere and draw(st.integers(0, 3)) == 0:
                    # a defaulted parameter toggles between its default and a value that already occurs elsewhere in the
                    # call (another argument, a surplus positional, an extra keyword): f(1, 5, 7) vs f(1, 5, 7, scale=5)
                    i = draw(st.sampled_from(with_default))
                    vals[i] = "DEFAULT" if vals[i] != "DEFAULT" else draw(st.sampled_from(elsewhere))
                    bank.append({"vals": vals, "xpos": src["xpos"], "xkw": src["xkw"]})
                    continue
                if len(cand) >= 2 and draw(st.integers(0, 4)) == 0:
                    # the same value bound to two parameters (equal objects, shared or distinct - see step["share"])
                    i, j = draw(st.lists(st.sampled_from(cand), min_size=2, max_size=2, unique=True))
                    vals[j] = vals[i] if family_of(vals[i]) is None else draw(st.sampled_from([vals[i], ["bytes", "6162"]]))
                    vals[i] = vals[j]
                    bank.append({"vals": vals, "xpos": src["xpos"], "xkw": src["xkw"]})
                    continue
                if len(cand) >= 2 and draw(st.integers(0, 3)) == 0:
                    # the same values bound to other parameters
                    i, j = draw(st.lists(st.sampled_from(cand), min_size=2, max_size=2, unique=True))
                    vals[i], vals[j] = vals[j], vals[i]
                    bank.append({"vals": vals, "xpos": src["xpos"], "xkw": src["xkw"]})
                    continue
                if cand:
                    i = draw(st.sampled_from(cand))
                    fam = family_of(vals[i]) or draw(st.sampled_from(FAMILIES))
                    vals[i] = draw(st.sampled_from(fam))
                    bank.append({"vals": vals, "xpos": src["xpos"], "xkw": src["xkw"]})
                    continue
            vals = []
            for (k, d), n in zip(sig, names):
                if k in ("va", "vk"):
                    continue
                if d and draw(st.integers(0, 2)) == 0:
                    vals.append("DEFAULT")
                else:
                    vals.append(draw(value_specs()))
            xpos = draw(st.lists(value_specs(), max_size=2)) if any(k == "va" for k, _ in sig) else []
            xkw = []
            if any(k == "vk" for k, _ in sig):
                xkw = [[n, draw(value_specs())] for n in draw(st.lists(st.sampled_from(["zz", "yy", "a"]), max_size=2, unique=True))]
            bank.append({"vals": vals, "xpos": xpos, "xkw": xkw})
        banks.append(bank)
    # each function is mostly used through one carrier, so that near-colliding vectors meet in one cache key space
    main_carrier = [draw(st.sampled_from(["f", "f", "f", "mA", "as", "pA"])) for _ in range(n_f)]
    n_steps = draw(st.integers(1, max_steps))
    for si in range(n_steps):
        op = draw(st.sampled_from(ops))
        fi = draw(st.integers(0, n_f - 1))
        if si < 2:
            # the history starts by calling a vector and its near-colliding sibling through the same carrier
            op, fi = "call", 0
        step = {"op": op, "f": fi}
        if op in ("call", "shelve", "check", "server"):
            b = banks[fi][si] if si < 2 else draw(st.sampled_from(banks[fi]))
            step.update(vals=list(b["vals"]), xpos=b["xpos"], xkw=b["xkw"])
            step["carrier"] = main_carrier[fi] if (si < 2 or draw(st.integers(0, 4))) else draw(st.sampled_from(["f", "mA", "mB", "as", "pA", "pB"]))
            step["npos"] = draw(st.integers(0, 5))
            step["spell_defaults"] = draw(st.booleans())
            step["perm"] = draw(st.integers(0, 1000))
            # equal str/bytes leaves of the call's arguments are ONE object (True) or distinct objects (False)
            step["share"] = draw(st.booleans())
            # different values for ignored parameters
            step["ign_alt"] = draw(st.one_of(st.none(), value_specs()))
            # the same call is first made through a second Memory object with another cache directory (same process)
            step["elsewhere_first"] = draw(st.integers(0, 7)) == 0
            # the call goes through an unpickled copy of the cached wrapper (what a worker process receives)
            step["via_pickle"] = draw(st.integers(0, 5)) == 0
        steps.append(step)
        if server and op == "call" and step.get("carrier") in ("pA", "pB") and draw(st.integers(0, 1)) == 0:
            # two partial objects of one function share a store identifier: the sibling partial is used by ANOTHER process
            # on the same arguments, then this process repeats its call
            other = "pB" if step["carrier"] == "pA" else "pA"
            steps.append(dict(step, op="server", carrier=other, elsewhere_first=False, via_pickle=False))
            steps.append(dict(step, elsewhere_first=False, via_pickle=False))
    return {"sigs": sigs, "ignore": ignores, "compress": draw(st.sampled_from([False, True, 1, 9])), "steps": steps,
            "verbose": draw(st.sampled_from([0, 0, 0, 1, 2, 11]))}


# ---- building calls -----------------------------------------------------------------

def spell(sig, step, ignore):
    """(args_specs, kwargs_specs) of a step, or None when the drawn spelling is not expressible."""
    names = S.param_names(sig)
    named = [(n, k, d) for (k, d), n in zip(sig, names) if k not in ("va", "vk")]
    vals = list(step["vals"])
    args, kwargs = [], {}
    positional_ok = True
    pos_i = 0
    for (n, k, d), v in zip(named, vals):
        if n in ignore and step.get("ign_alt") is not None and v != "DEFAULT":
            v = step["ign_alt"]
        is_default = v == "DEFAULT"
        if is_default and not step["spell_defaults"]:
            if k in ("po", "pk"):
                positional_ok = False
            continue
        if is_default:
            v = ["str", "d:%s" % n]
        if k in ("po", "pk"):
            if positional_ok and pos_i < step["npos"]:
                args.append(v)
                pos_i += 1
            elif k == "pk":
                positional_ok = False
                kwargs[n] = v
            else:
                if not positional_ok:
                    return None
                args.append(v)   # positional-only must be positional
                pos_i += 1
        else:
            kwargs[n] = v
    has_va = any(k == "va" for k, _ in sig)
    if has_va and positional_ok and step["xpos"] and all(k not in ("po", "pk") or True for k, _ in sig):
        n_pos_params = sum(1 for _, k, _ in named if k in ("po", "pk"))
        if len(args) == n_pos_params:
            xs = step["xpos"]
            if "*" in ignore and step.get("ign_alt") is not None:
                xs = [step["ign_alt"]]
            args.extend(xs)
    if any(k == "vk" for k, _ in sig):
        for n, v in step["xkw"]:
            if n not in kwargs:
                kwargs[n] = step["ign_alt"] if ("**" in ignore and step.get("ign_alt") is not None) else v
    return args, kwargs


class Machine:
    def __init__(self, spec, scratch, server=None):
        self.spec = spec
        self.scratch = scratch
        self.server = server
        mod, funcs, meths, inst = S.build_module(spec["sigs"], scratch, body=BODY, header=HEADER, prefix="vfmem", with_async=True)
        self.mod = mod
        self.funcs = funcs
        self.insts = {"mA": mod.K("A"), "mB": mod.K("B")}
        self.location = os.path.join(scratch, "cache-%s" % mod.__name__)
        shutil.rmtree(self.location, ignore_errors=True)
        for i, ign in enumerate(spec["ignore"]):
            body_ign = set("args" if x == "*" else "kw" if x == "**" else x for x in ign)
            MF.IGNORE["f_%d" % i] = body_ign
            MF.IGNORE["m_%d" % i] = body_ign
            MF.IGNORE["a_%d" % i] = body_ign
        import joblib
        self.joblib = joblib
        self.mem = joblib.Memory(self.location, compress=spec["compress"], verbose=spec.get("verbose", 0))
        self.wrapped = {}
        self.mem2, self.wrapped2 = None, {}
        self.partials = {}

    def plain(self, fi, carrier):
        if carrier == "f":
            return self.funcs[fi]
        if carrier == "as":
            return getattr(self.mod, "a_%d" % fi)
        if carrier in ("pA", "pB"):
            key = (fi, carrier)
            if key not in self.partials:
                self.partials[key] = functools.partial(self.funcs[fi], "bound-" + carrier)
            return self.partials[key]
        return getattr(self.insts[carrier], "m_%d" % fi)

    def cached(self, fi, carrier):
        key = (fi, carrier)
        if key not in self.wrapped:
            # ignore lists cannot be honoured for partial objects (documented: joblib cannot inspect them)
            ign = [] if carrier in ("pA", "pB") else list(self.spec["ignore"][fi])
            self.wrapped[key] = self.mem.cache(self.plain(fi, carrier), ignore=ign)
        return self.wrapped[key]

    def cached_elsewhere(self, fi, carrier):
        import joblib
        if self.mem2 is None:
            self.mem2 = joblib.Memory(self.location + "-other", compress=self.spec["compress"], verbose=0)
        key = (fi, carrier)
        if key not in self.wrapped2:
            self.wrapped2[key] = self.mem2.cache(self.plain(fi, carrier), ignore=list(self.spec["ignore"][fi]))
        return self.wrapped2[key]

    def close(self):
        shutil.rmtree(self.location + "-other", ignore_errors=True)
        shutil.rmtree(self.location, ignore_errors=True)
        sys.modules.pop(self.mod.__name__, None)
        try:
            os.unlink(self.mod.__file__)
        except OSError:
            pass


def run(spec, scratch, server=None):
    """Returns a list of step records."""
    warnings.simplefilter("ignore")
    m = Machine(spec, scratch, server)
    records = []
    try:
        for si, step in enumerate(spec["steps"]):
            op = step["op"]
            rec = {"i": si, "op": op, "f": step["f"]}
            records.append(rec)
            fi = step["f"]
            if op == "clear_all":
                m.mem.clear(warn=False)
                continue
            if op == "clear_f":
                m.cached(fi, "f").clear(warn=False)
                continue
            if op in ("reduce0", "reduce_big"):
                m.mem.reduce_size(items_limit=0 if op == "reduce0" else 10000)
                continue
            sig = spec["sigs"][fi]
            ignore = spec["ignore"][fi]
            sp = spell(sig, step, ignore)
            if sp is None:
                rec["skipped"] = "inexpressible"
                continue
            a_specs, k_specs = sp
            carrier = step["carrier"]
            is_async = carrier == "as"
            if carrier in ("pA", "pB"):
                # the partial binds the first positional parameter: it must exist and be passed positionally here
                if not sig or sig[0][0] not in ("po", "pk") or not a_specs:
                    rec["skipped"] = "partial-needs-positional"
                    continue
                a_specs = a_specs[1:]
            plain = m.plain(fi, carrier)
            shared = {}
            share = bool(step.get("share"))
            args = [V.build(a, perm_seed=step["perm"], share_leaves=share, fresh_strings=not share, shared=shared) for a in a_specs]
            kwargs = {k: V.build(v, perm_seed=step["perm"], share_leaves=share, fresh_strings=not share, shared=shared)
                      for k, v in k_specs.items()}
            # the undecorated function itself says what the call means (and whether Python accepts it):
            # it returns (name, canonical form of its bound, non-ignored arguments)
            try:
                expected = asyncio.run(plain(*args, **kwargs)) if is_async else plain(*args, **kwargs)
            except TypeError:
                rec["skipped"] = "rejected-by-python"
                continue
            if carrier in ("pA", "pB") and MF.IGNORE.get(expected[0]):
                # the body leaves ignored parameters out of its value but joblib cannot ignore anything for partials
                rec["skipped"] = "partial-with-ignore"
                continue
            name = expected[0]
            try:
                json.dumps(expected)
            except Exception:
                rec["skipped"] = "undescribable"
                continue
            rec["key"] = [step["carrier"], expected[0], expected[1]]
            rec["expected"] = list(expected)
            rec["spelling"] = [len(args), sorted(kwargs), step["perm"], json.dumps(a_specs) + json.dumps(k_specs, sort_keys=True) + str(share)]
            wrapped = m.cached(fi, step["carrier"])
            if step.get("via_pickle") and carrier == "f":
                wrapped = pickle.loads(pickle.dumps(wrapped))
                rec["via_pickle"] = True
            if step.get("elsewhere_first") and carrier not in ("pA", "pB"):
                try:
                    w2 = m.cached_elsewhere(fi, carrier)
                    out2 = asyncio.run(w2(*args, **kwargs)) if is_async else w2(*args, **kwargs)
                    rec["elsewhere_value"] = list(out2) if isinstance(out2, tuple) else repr(out2)
                except Exception as e:
                    rec["raised"] = "[other cache directory] %s: %s" % (type(e).__name__, str(e)[:300])
                    continue
            before = len(MF.EXEC_LOG)
            quiet = contextlib.redirect_stdout(io.StringIO()) if spec.get("verbose") else contextlib.nullcontext()
            try:
              with quiet:
                if op == "call":
                    out = asyncio.run(wrapped(*args, **kwargs)) if is_async else wrapped(*args, **kwargs)
                    rec["value"] = list(out) if isinstance(out, tuple) else repr(out)
                elif op == "shelve":
                    ref = asyncio.run(wrapped.call_and_shelve(*args, **kwargs)) if is_async else wrapped.call_and_shelve(*args, **kwargs)
                    rec["executed"] = len(MF.EXEC_LOG) - before
                    out = ref.get()
                    rec["value"] = list(out) if isinstance(out, tuple) else repr(out)
                elif op == "check":
                    rec["check"] = wrapped.check_call_in_cache(*args, **kwargs)
                elif op == "server":
                    if server is None:
                        rec["skipped"] = "no-server"
                        continue
                    r = server.ask({"scratch": m.scratch, "module": m.mod.__name__, "location": m.location,
                                    "compress": spec["compress"], "ignore": {k: sorted(v) for k, v in MF.IGNORE.items()},
                                    "jl_ignore": [] if carrier in ("pA", "pB") else list(ignore), "f": fi, "carrier": step["carrier"],
                                    "args": a_specs, "kwargs": k_specs, "perm": step["perm"] + 1,
                                    "verbose": spec.get("verbose", 0), "via_pickle": bool(step.get("via_pickle"))})
                    rec.update(r)
            except Exception as e:
                rec["raised"] = "%s: %s" % (type(e).__name__, str(e)[:300])
            if "executed" not in rec and op != "server":
                rec["executed"] = len(MF.EXEC_LOG) - before
        return records
    finally:
        m.close()


class Server:
    """Another interpreter (different PYTHONHASHSEED) sharing the cache directory."""

    def __init__(self, hashseed="4242"):
        env = dict(os.environ)
        env["PYTHONHASHSEED"] = hashseed
        self.p = subprocess.Popen([sys.executable, "-m", "vf.engines.memserver"], stdin=subprocess.PIPE, stdout=subprocess.PIPE,
                                  env=env, text=True, bufsize=1)

    def ask(self, req):
        self.p.stdin.write(json.dumps(req) + "\n")
        self.p.stdin.flush()
        line = self.p.stdout.readline()
        if not line:
            raise RuntimeError("memory server died")
        return json.loads(line)

    def close(self):
        try:
            self.p.stdin.close()
            self.p.wait(timeout=5)
        except Exception:
            self.p.kill()
