"""Shared pieces for the persistence checks (C03, C14): object strategies with
aliasing and big payloads, dump configurations, expected compressor model."""

import bz2
import gzip
import io
import lzma
import os
import zlib

from hypothesis import strategies as st

from . import values as V

METHODS = ["zlib", "gzip", "bz2", "lzma", "xz"]
EXT = {"zlib": ".z", "gzip": ".gz", "bz2": ".bz2", "lzma": ".lzma", "xz": ".xz"}
MAGIC = {"zlib": b"\x78", "gzip": b"\x1f\x8b", "bz2": b"BZ", "xz": b"\xfd7zXZ", "lzma": b"\x5d\x00"}
DECODERS = {"zlib": zlib.decompress, "gzip": gzip.decompress, "bz2": bz2.decompress,
            "lzma": lzma.decompress, "xz": lzma.decompress}


def objects(big=True, aliasing=True, max_leaves=12):
    """Value specs with optional big payload leaves and ["ref", i] alias nodes."""
    extra = []
    if big:
        extra.append(V.big_payloads())
    if aliasing:
        extra.append(st.integers(0, 7).map(lambda i: ["ref", i]))
    return V.values(max_leaves=max_leaves, extra_leaves=st.one_of(extra) if extra else None)


def compress_args():
    """JSON-able compress argument specs: ["lit", value] | ["name", m] | ["tuple", m, level]."""
    return st.one_of(
        st.sampled_from([0, False, True, 1, 2, 3, 4, 5, 6, 7, 8, 9]).map(lambda v: ["lit", v]),
        st.sampled_from(METHODS).map(lambda m: ["name", m]),
        st.tuples(st.sampled_from(METHODS), st.sampled_from([None, 0, 1, 2, 3, 5, 6, 9])).map(lambda t: ["tuple", t[0], t[1]]),
    )


def compress_value(c):
    if c[0] == "lit":
        return c[1]
    if c[0] == "name":
        return c[1]
    return (c[1], c[2])


def targets():
    """["path", ext] | ["fileobj"] | ["bytesio"]; ext in '', '.pkl', compressor extensions."""
    exts = ["", ".pkl", ".joblib"] + list(EXT.values())
    return st.one_of(st.sampled_from(exts).map(lambda e: ["path", e]), st.just(["fileobj"]), st.just(["bytesio"]))


def expected_method(c, target):
    """Which compressor the documentation promises: returns (method or None for raw,
    judged) - judged False when the docs leave it open (explicit level 0 in a tuple, level 0
    with zlib-incompatible settings)."""
    if c[0] in ("name", "tuple"):
        level = None if c[0] == "name" else c[2]
        if level == 0:
            return None, False
        return c[1], True
    if target[0] == "path":
        for m, e in EXT.items():
            if target[1] == e:
                return m, True
    return ("zlib" if c[1] else None), True


def valid_combo(c, target):
    """Combinations the library documents as valid (bz2 has no level 0 - but level 0 means raw)."""
    return True


def do_dump(joblib, obj, c, protocol, target, scratch, tag):
    """Dump; returns (kind, handle) where handle lets do_load/raw_bytes reach the data."""
    cv = compress_value(c)
    if target[0] == "path":
        path = os.path.join(scratch, "p03-%d-%s%s" % (os.getpid(), tag, target[1]))
        ret = joblib.dump(obj, path, compress=cv, protocol=protocol)
        return "path", path, ret
    if target[0] == "fileobj":
        path = os.path.join(scratch, "p03-%d-%s.fobj" % (os.getpid(), tag))
        with open(path, "wb") as f:
            ret = joblib.dump(obj, f, compress=cv, protocol=protocol)
        return "fileobj", path, ret
    bio = io.BytesIO()
    ret = joblib.dump(obj, bio, compress=cv, protocol=protocol)
    return "bytesio", bio, ret


def raw_bytes(kind, handle):
    if kind == "bytesio":
        return handle.getvalue()
    with open(handle, "rb") as f:
        return f.read()
