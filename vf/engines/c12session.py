"""One interpreter session of a C12 history (run as a fresh process, or in-process).

steps: ["def", k, shift]   (re)define version k of the function (source rewritten with `shift` leading
                            comment lines, module re-executed); the new function object becomes live[k]
                            and is wrapped with Memory.cache immediately (decorator style)
       ["call", j, a]       call live version j with argument a
       ["swap", j, k]       live[j].__code__ = live[k].__code__  (live[j] now runs version k's code)
       ["restore", j]       give live[j] its original code object back
       ["forget", k]        drop every reference to live version k (function, wrapper, module) and gc.collect()
Version k's body returns (k, a) and appends to builtins._vf_log.
"""

import builtins
import importlib
import json
import linecache
import os
import runpy
import sys
import warnings

MODNAME = "vf_c12_mod"


def source(kind, k, shift):
    pre = "".join("# pad %d\n" % i for i in range(shift))
    if kind in ("module", "main"):
        return pre + "import builtins\n\n\ndef f(a):\n    builtins._vf_log.append((%d, a))\n    return (%d, a)\n" % (k, k)
    if kind == "nested":
        return pre + ("import builtins\n\n\ndef outer():\n    def f(a):\n        builtins._vf_log.append((%d, a))\n"
                      "        return (%d, a)\n    return f\n\n\nf = outer()\n" % (k, k))
    if kind == "lambda":
        return pre + "import builtins\n\nf = lambda a: (builtins._vf_log.append((%d, a)), (%d, a))[1]\n" % (k, k)
    if kind == "swap":
        # one same-named function f (version 1) plus donors g2, g3 whose code objects are swapped into f;
        # every source stays available in the file
        return ("import builtins\n\n\ndef f(a):\n    builtins._vf_log.append((1, a))\n    return (1, a)\n\n\n"
                "def g2(a):\n    builtins._vf_log.append((2, a))\n    return (2, a)\n\n\n"
                "def g3(a):\n    builtins._vf_log.append((3, a))\n    return (3, a)\n")
    if kind == "indent":
        # the versions differ ONLY in the indentation of two lines (inside / after a loop)
        k0 = (k - 1) % 4
        ia, ib = ("        " if k0 & 1 else "    "), ("        " if k0 & 2 else "    ")
        return pre + ("import builtins\n\n\ndef f(a):\n    v = 1\n    for _i in (0, 1):\n        v += 1\n" + ia + "v += 10\n"
                      "    for _i in (0, 1):\n        v += 1\n" + ib + "v += 100\n"
                      "    k = {115: 1, 125: 2, 215: 3, 225: 4}[v]\n    builtins._vf_log.append((k, a))\n    return (k, a)\n")
    if kind in ("nofile", "sourceless"):
        return pre + "import builtins\n\n\ndef f(a):\n    builtins._vf_log.append((%d, a))\n    return (%d, a)\n" % (k, k)
    raise ValueError(kind)


def run_session(kind, location, moddir, steps):
    warnings.simplefilter("ignore")
    import logging
    logging.disable(logging.CRITICAL)
    import joblib

    builtins._vf_log = []
    mem = joblib.Memory(location, verbose=0)
    live, cached, ver_of, orig_code = {}, {}, {}, {}
    path = os.path.join(moddir, MODNAME + ".py")
    if moddir not in sys.path:
        sys.path.insert(0, moddir)
    out = []
    nofile_count = [0]
    for step in steps:
        op = step[0]
        if op == "def":
            _, k, shift = step
            src = source(kind, k, shift)
            if kind in ("nofile", "sourceless"):
                nofile_count[0] += 1
                fname = "<vf-%s-%d>" % (kind, nofile_count[0])
                if kind == "nofile":
                    # like an interactive shell: no file, but the source can be retrieved through linecache
                    linecache.cache[fname] = (len(src), None, src.splitlines(True), fname)
                # "sourceless": exec()-defined, no source anywhere; the versions differ only by a constant
                ns = {"__name__": "vf_nofile"}
                exec(compile(src, fname, "exec"), ns)
                func = ns["f"]
            else:
                with open(path, "w") as fh:
                    fh.write(src)
                linecache.checkcache(path)
                importlib.invalidate_caches()
                if kind == "main":
                    ns = runpy.run_path(path, run_name="__main__")
                    func = ns["f"]
                else:
                    # bypass stale bytecode: same-second rewrites keep the same mtime/size
                    sys.modules.pop(MODNAME, None)
                    import shutil
                    shutil.rmtree(os.path.join(moddir, "__pycache__"), ignore_errors=True)
                    mod = importlib.import_module(MODNAME)
                    func = mod.f
            if kind == "swap":
                donors = {2: mod.g2, 3: mod.g3}
            live[k] = func
            orig_code[k] = (getattr(func, "__code__", None), k)
            ver_of[k] = k
            cached[k] = mem.cache(func)
            del func
            out.append({"op": "def", "k": k})
        elif op == "swap":
            _, j, k = step
            if kind == "swap" and j in live and k in (2, 3):
                live[j].__code__ = donors[k].__code__
                ver_of[j] = k
                out.append({"op": "swap", "j": j, "now": ver_of[j]})
            else:
                out.append({"op": "swap", "skipped": True})
        elif op == "restore":
            j = step[1]
            if j in live and kind == "swap" and orig_code[j][0] is not None:
                live[j].__code__ = orig_code[j][0]
                ver_of[j] = orig_code[j][1]
                out.append({"op": "restore", "j": j, "now": ver_of[j]})
            else:
                out.append({"op": "restore", "skipped": True})
        elif op == "forget":
            k = step[1]
            if k in live:
                import gc
                live.pop(k)
                cached.pop(k)
                orig_code.pop(k)
                ver_of.pop(k)
                mod = sys.modules.get(MODNAME)
                if mod is not None and kind not in ("main", "nofile") and not any(getattr(f, "__module__", None) == MODNAME and f is getattr(mod, "f", None) for f in live.values()):
                    sys.modules.pop(MODNAME, None)
                del mod
                ns = None
                gc.collect()
                out.append({"op": "forget", "k": k})
            else:
                out.append({"op": "forget", "skipped": True})
        elif op == "call":
            _, j, a = step
            if j not in live:
                out.append({"op": "call", "skipped": True})
                continue
            before = len(builtins._vf_log)
            try:
                v = cached[j](a)
                rec = {"op": "call", "j": j, "a": a, "version": ver_of[j], "value": list(v) if isinstance(v, tuple) else repr(v),
                       "executed": len(builtins._vf_log) - before}
            except Exception as e:
                rec = {"op": "call", "j": j, "a": a, "version": ver_of[j], "raised": "%s: %s" % (type(e).__name__, str(e)[:200])}
            out.append(rec)
    return out


if __name__ == "__main__":
    a = json.loads(sys.argv[1])
    res = run_session(a["kind"], a["location"], a["moddir"], a["steps"])
    sys.stdout.write("\n@@RESULT@@" + json.dumps(res) + "\n")
