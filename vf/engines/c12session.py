"""One interpreter session of a C12 history (run as a fresh process, or in-process).

steps: ["def", k, shift]   (re)define version k of the function (source rewritten with `shift` leading
                            comment lines, module re-executed); the new function object becomes live[k]
                            and is wrapped with Memory.cache immediately (decorator style)
       ["call", j, a]       call live version j with argument a
       ["swap", j, k]       live[j].__code__ = live[k].__code__  (live[j] now runs version k's code)
Version k's body returns (k, a) and appends to builtins._vf_log.
"""

import builtins
import importlib
import json
import linecache
import os
import runpy
import sys
import warnings

MODNAME = "vf_c12_mod"


def source(kind, k, shift):
    pre = "".join("# pad %d\n" % i for i in range(shift))
    if kind in ("module", "main"):
        return pre + "import builtins\n\n\ndef f(a):\n    builtins._vf_log.append((%d, a))\n    return (%d, a)\n" % (k, k)
    if kind == "nested":
        return pre + ("import builtins\n\n\ndef outer():\n    def f(a):\n        builtins._vf_log.append((%d, a))\n"
                      "        return (%d, a)\n    return f\n\n\nf = outer()\n" % (k, k))
    if kind == "lambda":
        return pre + "import builtins\n\nf = lambda a: (builtins._vf_log.append((%d, a)), (%d, a))[1]\n" % (k, k)
    if kind == "nofile":
        return pre + "import builtins\n\n\ndef f(a):\n    builtins._vf_log.append((%d, a))\n    return (%d, a)\n" % (k, k)
    raise ValueError(kind)


def run_session(kind, location, moddir, steps):
    warnings.simplefilter("ignore")
    import logging
    logging.disable(logging.CRITICAL)
    import joblib

    builtins._vf_log = []
    mem = joblib.Memory(location, verbose=0)
    live, cached, ver_of = {}, {}, {}
    path = os.path.join(moddir, MODNAME + ".py")
    if moddir not in sys.path:
        sys.path.insert(0, moddir)
    out = []
    nofile_count = [0]
    for step in steps:
        op = step[0]
        if op == "def":
            _, k, shift = step
            src = source(kind, k, shift)
            if kind == "nofile":
                nofile_count[0] += 1
                fname = "<vf-nofile-%d>" % nofile_count[0]
                linecache.cache[fname] = (len(src), None, src.splitlines(True), fname)
                ns = {"__name__": "vf_nofile"}
                exec(compile(src, fname, "exec"), ns)
                func = ns["f"]
            else:
                with open(path, "w") as fh:
                    fh.write(src)
                linecache.checkcache(path)
                importlib.invalidate_caches()
                if kind == "main":
                    ns = runpy.run_path(path, run_name="__main__")
                    func = ns["f"]
                else:
                    # bypass stale bytecode: same-second rewrites keep the same mtime/size
                    sys.modules.pop(MODNAME, None)
                    import shutil
                    shutil.rmtree(os.path.join(moddir, "__pycache__"), ignore_errors=True)
                    mod = importlib.import_module(MODNAME)
                    func = mod.f
            live[k] = func
            ver_of[k] = k
            cached[k] = mem.cache(func)
            out.append({"op": "def", "k": k})
        elif op == "swap":
            _, j, k = step
            if j in live and k in live and kind != "nofile":
                live[j].__code__ = live[k].__code__
                ver_of[j] = ver_of[k]
                out.append({"op": "swap", "j": j, "now": ver_of[j]})
            else:
                out.append({"op": "swap", "skipped": True})
        elif op == "call":
            _, j, a = step
            if j not in live:
                out.append({"op": "call", "skipped": True})
                continue
            before = len(builtins._vf_log)
            try:
                v = cached[j](a)
                rec = {"op": "call", "j": j, "a": a, "version": ver_of[j], "value": list(v) if isinstance(v, tuple) else repr(v),
                       "executed": len(builtins._vf_log) - before}
            except Exception as e:
                rec = {"op": "call", "j": j, "a": a, "version": ver_of[j], "raised": "%s: %s" % (type(e).__name__, str(e)[:200])}
            out.append(rec)
    return out


if __name__ == "__main__":
    a = json.loads(sys.argv[1])
    res = run_session(a["kind"], a["location"], a["moddir"], a["steps"])
    sys.stdout.write("\n@@RESULT@@" + json.dumps(res) + "\n")
