"""E1 - controlled-schedule backend for joblib.Parallel.

The harness owns every boundary through which Parallel's concurrency flows and
which user code may legitimately implement: the backend extension API
(submit / retrieve_result_callback / compute_batch_size / batch_completed /
abort_everything ...), the input iterable, and the task functions.  Nothing
runs until the driver says so, hence "which batch completes next", "which
thread is inside the iterator while another completes" and "when does the
consumer pull/close" are *generated data* (the scenario spec).

Threads: D = driver (the test body, runs Engine.run), M = caller thread that
executes Parallel.__call__/next()/close(), W<n> = one short-lived thread per
completion.  D is event driven (self.evq) and never blocks on joblib.

Scenario spec (JSON):
 {"n_jobs": 2..6, "batch_size": int|"auto", "auto_sizes": [ints], "pre_dispatch": "all"|int|str,
  "return_as": "list"|"generator"|"generator_unordered", "managed": bool,
  "input": "list"|"generator"|"iterator", "timeout": null|seconds,
  "calls": [ {"n": int, "fail": {"<idx>": exc_id}, "iter_fail": null|pos, "never": [job ordinals],
              "sync": [job ordinals], "steps": [[op, ...]], "gates": [{"gate": g, "at": k, "do": [[op, ...]]}]} ]}
 step ops: ["c", pick]  complete the (pick mod #inflight)-th in-flight job of the current call
           ["late", pick] complete a job left over from an earlier (aborted) call
   call["late_before"] = [picks]: complete left-over jobs before this call starts (between two calls)
           ["next"] ["close"] ["drop"] ["recall"] ["exhaust"]  consumer actions (generator modes)
"""

import gc
import itertools
import queue
import sys
import threading
import time
import traceback

from joblib._parallel_backends import AutoBatchingMixin, ParallelBackendBase
from joblib.parallel import Parallel

WATCHDOG = 12.0   # seconds without any event while something must happen => hang
SETTLE = 0.03     # how long a probe thread is given to show up at an observable point
PARK_HOLD = 0.25  # how long a consumer action may run while a worker thread is kept parked at a gate


class HarnessBug(Exception):
    pass


class CustomError(Exception):
    def __init__(self, a, b):
        super().__init__(a, b)
        self.a, self.b = a, b


EXC = {
    "value": lambda i: ValueError("x", i),
    "key": lambda i: KeyError(i),
    "custom": lambda i: CustomError("task", i),
    "os": lambda i: OSError(2, "msg-%d" % i),
    "zerodiv": lambda i: ZeroDivisionError("division by zero %d" % i),
    "type": lambda i: TypeError("bad %d" % i),
}


class IterFailure(RuntimeError):
    pass


class Job:
    def __init__(self, jid, call_no, ordinal, batch, callback, indices):
        self.jid, self.call_no, self.ordinal = jid, call_no, ordinal
        self.batch, self.callback, self.indices = batch, callback, indices
        self.state = "inflight"   # inflight | running | done | aborted
        self.result = None
        self.exc = None
        self.completed_seq = None

    # joblib may call .get() on the job for backends without retrieval callbacks; not used here.


class SchedBackend(AutoBatchingMixin, ParallelBackendBase):
    """Controlled backend.  With spec["auto_mode"] == "mixin" and batch_size='auto' the batch size comes from joblib's
    own AutoBatchingMixin heuristic, fed with DRAWN batch durations instead of wall-clock ones."""
    supports_retrieve_callback = True
    supports_sharedmem = True
    uses_threads = True
    default_n_jobs = 2

    def __init__(self, engine, **kw):
        super().__init__(**kw)
        self.eng = engine

    def effective_n_jobs(self, n_jobs):
        if n_jobs is None:
            return 2
        return int(n_jobs)

    def configure(self, n_jobs=1, parallel=None, **kw):
        self.parallel = parallel
        self.eng.backend_parallel = parallel
        self.eng.ev("configure", n_jobs=n_jobs)
        # hook at the very start of a call (after joblib has reset its per-call flags): completions of batches that an
        # earlier, failed or abandoned, call left behind can be made to arrive exactly here
        self.eng.gate("configure", 0)
        return self.effective_n_jobs(n_jobs)

    def start_call(self):
        self.eng.ev("start_call")

    def stop_call(self):
        self.eng.ev("stop_call")

    def terminate(self):
        self.eng.ev("terminate")

    def compute_batch_size(self):
        eng = self.eng
        k = eng.counter("batchsize")
        eng.gate("batchsize", k)
        if eng.spec.get("auto_mode") == "mixin":
            size = AutoBatchingMixin.compute_batch_size(self)
        else:
            sizes = eng.spec.get("auto_sizes") or [1]
            size = sizes[k % len(sizes)]
        eng.ev("batchsize", k=k, size=size)
        return size

    def batch_completed(self, batch_size, duration):
        k = self.eng.counter("batchdone")
        self.eng.gate("batchdone", k)
        if self.eng.spec.get("auto_mode") == "mixin":
            durs = self.eng.spec.get("durations") or [0.01]
            AutoBatchingMixin.batch_completed(self, batch_size, durs[k % len(durs)])
        self.eng.ev("batch_completed", size=batch_size)

    def abort_everything(self, ensure_ready=True):
        self.eng.ev("abort_everything", ensure_ready=ensure_ready)
        self.eng.on_abort()

    def retrieve_result_callback(self, out):
        self.eng.gate("retrieve", out.ordinal)
        if out.exc is not None:
            raise out.exc
        return out.result

    def submit(self, func, callback=None):
        return self.eng.on_submit(func, callback)

    @property
    def supports_return_generator(self):
        return True

    @property
    def supports_timeout(self):
        return True


class Engine:
    def __init__(self, spec):
        self.spec = spec
        self.evq = queue.Queue()
        self.trace = []
        self.tlock = threading.Lock()
        self.counters = {}
        self.jobs = []          # every job ever submitted
        self.call_no = -1
        self.gates_plan = []    # for the current call
        self.held = {}          # gate key -> threading.Event to release
        self.inside_iter = None
        self.pulled = 0         # items handed out in the current call
        self.done_tasks = 0     # task bodies finished in the current call
        self.problems = []      # oracle-independent observations: reentrancy, harness notes
        self.hang = None
        self.workers = []
        self.sync_depth = 0
        self.mq = queue.Queue()
        self.m_busy = None
        self.m_thread = None
        self.seq = 0
        self.cur = None
        self.gen_holder = []
        self.recall_holder = []
        self.parked_gates = []
        self.park_ok = None      # name of the only worker thread that may be left parked right now
        self.park_next_call_ok = False
        self.park_policy = {}    # gate key -> True (until the next consumer action) | "next_call" (until the next call dispatched)

    # ---- trace --------------------------------------------------------------
    def ev(self, kind, **kw):
        with self.tlock:
            self.seq += 1
            e = dict(kind=kind, seq=self.seq, call=self.call_no, thread=threading.current_thread().name, **kw)
            e["pulled"] = self.pulled
            e["done"] = self.done_tasks
            e["inflight"] = sum(1 for j in self.jobs if j.call_no == self.call_no and j.state in ("inflight", "running"))
            self.trace.append(e)
        return e

    def counter(self, name):
        with self.tlock:
            k = self.counters.get(name, 0)
            self.counters[name] = k + 1
        return k

    # ---- gates ----------------------------------------------------------------
    def gate(self, name, occurrence):
        """Called by joblib-driven threads inside harness-owned code."""
        for g in self.gates_plan:
            if g["gate"] == name and g["at"] == occurrence and not g.get("used"):
                g["used"] = True
                release = threading.Event()
                key = (name, occurrence)
                self.held[key] = release
                self.ev("gate_hit", gate=name, at=occurrence)
                g["_thread"] = threading.current_thread().name
                # does THIS thread own joblib's dispatch lock here?  (a batch completed synchronously inside submit()
                # runs its whole callback inside the dispatching thread's locked section)
                lock = getattr(getattr(self, "backend_parallel", None), "_lock", None)
                try:
                    g["_holds_lock"] = bool(lock is not None and lock._is_owned())
                except Exception:
                    g["_holds_lock"] = True
                self.evq.put(("gate", key, g))
                if not release.wait(WATCHDOG * 3):
                    self.problems.append("harness: gate %r never released" % (key,))
                self.ev("gate_released", gate=name, at=occurrence)
                return

    # ---- iterator ---------------------------------------------------------------
    def make_input(self, call):
        eng = self
        n = call["n"]
        base = 1000 * self.call_no
        iter_fail = call.get("iter_fail")
        fail = {int(k): v for k, v in call.get("fail", {}).items()}

        def item(i):
            idx = base + i
            return (eng.task, (idx,), {"k": i % 3} if i % 2 else {})

        self.fail_map = {base + i: exc for i, exc in fail.items()}
        kind = self.spec.get("input", "iterator")
        if kind == "list" and iter_fail is None:
            return [item(i) for i in range(n)]

        class It:
            def __init__(self):
                self.i = 0

            def __iter__(self):
                return self

            def __next__(self):
                me = threading.current_thread().name
                if eng.inside_iter is not None and eng.inside_iter != me:
                    eng.problems.append("reentrant-iterator: %s entered while %s is inside" % (me, eng.inside_iter))
                    eng.ev("reentrant", other=eng.inside_iter)
                prev = eng.inside_iter
                eng.inside_iter = me
                try:
                    eng.ev("pull_enter", i=self.i)
                    eng.gate("iter", self.i)
                    if iter_fail is not None and self.i == iter_fail:
                        eng.ev("iter_raise", i=self.i)
                        raise IterFailure("iterator failed at %d" % self.i)
                    if self.i >= n:
                        eng.ev("pull_stop")
                        raise StopIteration
                    it = item(self.i)
                    self.i += 1
                    with eng.tlock:
                        eng.pulled += 1
                    eng.ev("pull", i=self.i - 1)
                    return it
                finally:
                    eng.inside_iter = prev

        it = It()
        if kind == "generator":
            def gen():
                while True:
                    try:
                        x = next(it)
                    except StopIteration:
                        return
                    yield x
            return gen()
        return it

    def task(self, idx, k=None):
        # a late completion of an old batch runs during a later call: the event belongs to the task's own call
        self.ev("exec", idx=idx)["call"] = idx // 1000
        exc = self.fail_map.get(idx)
        if exc is not None:
            with self.tlock:
                self.done_tasks += 1
            raise EXC[exc](idx)
        with self.tlock:
            self.done_tasks += 1
        return ("r", idx, k)

    @staticmethod
    def expected_value(idx, i):
        return ("r", idx, (i % 3) if i % 2 else None)

    # ---- backend callbacks ---------------------------------------------------------
    def on_submit(self, batch, callback):
        ordinal = self.counter("submit")
        indices = [args[0] for _, args, _ in batch.items]
        job = Job(len(self.jobs), self.call_no, ordinal, batch, callback, indices)
        will_sync = (ordinal in self.cur.get("sync", []) and self.sync_depth < 5
                     and ordinal not in self.cur.get("never", []))
        if will_sync:
            job.state = "running"   # never offered to the driver as an in-flight job
        with self.tlock:
            self.jobs.append(job)
        self.ev("submit", jid=job.jid, ordinal=ordinal, indices=indices)
        self.gate("submit", ordinal)
        if will_sync:
            self.sync_depth += 1
            try:
                self.complete(job, sync=True)
            finally:
                self.sync_depth -= 1
        else:
            self.evq.put(("submit", job.jid))
        return job

    def on_abort(self):
        with self.tlock:
            for j in self.jobs:
                if j.call_no == self.call_no and j.state == "inflight":
                    j.state = "aborted"

    def complete(self, job, sync=False, late=False):
        """Run the batch and deliver the callback in the current thread."""
        job.state = "running"
        self.ev("complete_start", jid=job.jid, sync=sync, late=late)
        try:
            job.result = job.batch()
        except Exception as e:   # task failure
            job.exc = e
        job.completed_seq = self.counter("completed")
        job.state = "callback"   # tasks finished: no longer "in flight"
        self.ev("cb_enter", jid=job.jid, failed=job.exc is not None)
        try:
            job.callback(job)
        except BaseException as e:  # joblib's callback must not raise into the backend
            self.problems.append("callback raised %s: %s" % (type(e).__name__, e))
        job.state = "done"
        self.ev("cb_return", jid=job.jid, failed=job.exc is not None)

    # ---- driver helpers ---------------------------------------------------------------
    def inflight(self, call_no=None):
        call_no = self.call_no if call_no is None else call_no
        return [j for j in self.jobs if j.call_no == call_no and j.state == "inflight"
                and j.ordinal not in self.calls_never.get(call_no, ())]

    def leftovers(self):
        return [j for j in self.jobs if j.call_no < self.call_no and j.state in ("inflight", "aborted")]

    def start_worker(self, job, late=False):
        t = threading.Thread(target=self._worker, args=(job, late), name="W%d" % job.jid, daemon=True)
        job.state = "running"
        self.workers.append(t)
        t.start()
        return t

    def _worker(self, job, late):
        try:
            self.complete(job, late=late)
        except BaseException:
            self.problems.append("harness: worker crashed: %s" % traceback.format_exc())
        finally:
            self.evq.put(("worker_done", job.jid))

    def wait_event(self, pred, what, allow_default=True):
        """Block D until pred() holds, servicing gate events.  Returns False on hang."""
        deadline = time.time() + WATCHDOG
        while not pred():
            try:
                evt = self.evq.get(timeout=max(0.01, deadline - time.time()))
            except queue.Empty:
                if pred():
                    return True
                self.hang = {"waiting_for": what, "frames": self.dump_frames()}
                self.ev("HANG", waiting_for=what)
                return False
            deadline = time.time() + WATCHDOG
            if evt[0] == "gate":
                self.service_gate(evt[1], evt[2])
        return True

    def service_gate(self, key, g):
        if g.get("park") and self.park_ok and g.get("_thread") == self.park_ok:
            # leave the (worker) thread parked inside harness-owned code - it may hold joblib's dispatch lock - until
            # the NEXT consumer action has been started: "the consumer closes / pulls while a callback is dispatching"
            self.parked_gates.append(key)
            # keeping a callback parked until the NEXT call only makes sense when its own run is abandoned right away
            # ... and the parked thread must not own joblib's lock (the consumer's close()/drop needs it)
            self.park_policy[key] = g.get("park") if (g.get("park") != "next_call" or (self.park_next_call_ok and not g.get("_holds_lock"))) else True
            self.ev("gate_parked", gate=key[0], at=key[1])
            return
        started = []
        for op in g.get("do", []):
            if op[0] == "c":
                fl = self.inflight()
                if fl:
                    job = fl[op[1] % len(fl)]
                    started.append(job)
                    self.start_worker(job)
            elif op[0] == "late":
                lo = self.leftovers()
                if lo:
                    job = lo[op[1] % len(lo)]
                    started.append(job)
                    self.start_worker(job, late=True)
        if started:
            # give the probes a chance to reach an observable point while the gate is held
            t_end = time.time() + SETTLE
            while time.time() < t_end and any(j.state != "done" for j in started):
                time.sleep(0.002)
        self.held.pop(key).set()
        # the probes finish on their own; their worker_done events are consumed by later waits

    def release_parked(self, wait_m=0.0, next_call=False):
        """Release the parked threads; before that give the consumer action just started `wait_m` seconds to finish.
        Threads parked with policy "next_call" stay parked across consumer actions of their own call (when that cannot
        block them: hooks outside joblib's lock) and are released once the NEXT call has finished its initial dispatch."""
        keep = []
        todo = []
        for key in self.parked_gates:
            if self.park_policy.get(key) == "next_call" and not next_call and key[0] == "batchdone":
                keep.append(key)
            else:
                todo.append(key)
        if todo:
            t_end = time.time() + wait_m
            while time.time() < t_end and self.m_busy is not None:
                time.sleep(0.002)
            for key in todo:
                ev = self.held.pop(key, None)
                if ev is not None:
                    ev.set()
        self.parked_gates = keep

    def dump_frames(self):
        out = {}
        names = {t.ident: t.name for t in threading.enumerate()}
        for ident, frame in sys._current_frames().items():
            nm = names.get(ident, str(ident))
            if nm.startswith(("M", "W")):
                out[nm] = [ln.strip() for ln in traceback.format_stack(frame)[-6:]]
        return out

    # ---- M thread ---------------------------------------------------------------------
    def m_loop(self):
        while True:
            cmd = self.mq.get()
            if cmd is None:
                return
            name, fn = cmd
            try:
                res = ("ok", fn())
            except BaseException as e:
                res = ("raise", e)
            self.m_result = res
            # the instant the caller-side action really returned (the driver may notice it later)
            self.m_done_seq = self.ev("m_return", name=name, outcome=res[0])["seq"]
            self.m_busy = None
            self.evq.put(("m_done", name))

    def m_start(self, name, fn):
        assert self.m_busy is None, "M busy with %s" % self.m_busy
        self.m_busy = name
        self.m_result = None
        self.mq.put((name, fn))

    def m_wait(self, what):
        return self.wait_event(lambda: self.m_busy is None, what)

    # ---- unblock everything after a hang so threads can exit ----------------------------
    def unblock(self):
        for key, ev in list(self.held.items()):
            ev.set()
        self.held.clear()
        self.parked_gates = []
        self.gates_plan = []


class _Retrieval:
    def __init__(self, eng):
        self.eng = eng

    def __enter__(self):
        self.eng.burst_over = True
        self.eng.ev("retrieval_enter")
        self.eng.evq.put(("retrieval_enter",))

    def __exit__(self, *a):
        self.eng.ev("retrieval_exit")
        return False


def _retrieval_context(self):
    return _Retrieval(self.eng)


SchedBackend.retrieval_context = _retrieval_context


def _exc_desc(e):
    return {"type": type(e).__name__, "args": repr(getattr(e, "args", None)), "module": type(e).__module__}


def run(spec):
    """Execute a scenario; returns a report dict (JSON-able apart from nothing)."""
    eng = Engine(spec)
    eng.calls_never = {k: set(c.get("never", [])) for k, c in enumerate(spec["calls"])}
    backend = SchedBackend(eng)
    kwargs = dict(n_jobs=spec["n_jobs"], backend=backend, batch_size=spec["batch_size"],
                  pre_dispatch=spec["pre_dispatch"], return_as=spec["return_as"], timeout=spec.get("timeout"))
    par = Parallel(**kwargs)
    eng.par = par
    eng.m_thread = threading.Thread(target=eng.m_loop, name="M", daemon=True)
    eng.m_thread.start()
    report = {"calls": [], "problems": eng.problems, "hang": None}
    gen_mode = spec["return_as"] != "list"
    try:
        if spec.get("managed"):
            eng.m_start("enter", par.__enter__)
            eng.m_wait("enter")
        for k, call in enumerate(spec["calls"]):
            rec = _run_call(eng, par, k, call, gen_mode)
            report["calls"].append(rec)
            if eng.hang:
                break
        eng.release_parked(next_call=True)
        if spec.get("managed") and not eng.hang:
            eng.m_start("exit", lambda: par.__exit__(None, None, None))
            eng.m_wait("exit")
    finally:
        if eng.hang:
            eng.unblock()
        eng.mq.put(None)
        report["hang"] = eng.hang
        report["trace"] = eng.trace
        report["jobs"] = [{"jid": j.jid, "call": j.call_no, "ordinal": j.ordinal, "indices": j.indices,
                           "state": j.state, "completed_seq": j.completed_seq, "failed": j.exc is not None}
                          for j in eng.jobs]
        report["threads_alive"] = [t.name for t in threading.enumerate() if t.name.startswith(("M", "W")) and t.is_alive()]
    return report


def _reset_call(eng, k, call):
    eng.call_no = k
    eng.cur = call
    with eng.tlock:
        for name in ("submit", "batchsize", "batchdone", "completed"):
            eng.counters[name] = 0
        eng.pulled = 0
        eng.done_tasks = 0
    eng.gates_plan = [dict(g) for g in call.get("gates", [])]
    eng.burst_over = False
    eng.sync_depth = 0


def _complete_one(eng, job, late=False, allow_park=False):
    """Complete one job in a worker thread and wait for its callback to return.  With allow_park the wait also ends
    when the worker got parked at a gate (it stays there until the next consumer action has been started)."""
    eng.park_ok = ("W%d" % job.jid) if allow_park else None
    eng.start_worker(job, late=late)
    what = "callback of job %d to return" % job.jid
    try:
        while True:
            if not eng.wait_event(lambda: job.state == "done" or eng.parked_gates, what):
                return False
            if job.state == "done" or allow_park:
                return True
            eng.release_parked(next_call=True)
    finally:
        eng.park_ok = None


def _drain(eng, until, what):
    """Complete in-flight jobs FIFO until `until()` holds.  Returns False on hang."""
    forced = 0
    while not until():
        ok = eng.wait_event(lambda: until() or (eng.burst_over and eng.inflight()), what)
        if not ok:
            return False, forced
        if until():
            break
        fl = eng.inflight()
        if fl:
            forced += 1
            if not _complete_one(eng, fl[0]):
                return False, forced
    return True, forced


def _run_call(eng, par, k, call, gen_mode):
    _reset_call(eng, k, call)
    inp = eng.make_input(call)
    base = 1000 * k
    rec = {"k": k, "n": call["n"], "base": base, "outcome": None, "results": None, "exception": None,
           "consumer": [], "forced": 0, "steps_done": 0}
    # completions of batches abandoned by an earlier (failed / closed) call that arrive BETWEEN two calls: the backend
    # could not kill them, the previous call's id and abort flag are still in force
    for pick in call.get("late_before", []):
        lo = eng.leftovers()
        if not lo or eng.hang:
            break
        if not _complete_one(eng, lo[pick % len(lo)], late=True):
            break
    eng.ev("call_start")
    if gen_mode:
        # the generator object is only ever referenced from eng.gen_holder, and only touched
        # by commands running in M: dropping it really happens in the thread that created it
        def _call():
            eng.gen_holder = [par(inp)]
            return "GEN"
        eng.m_start("call", _call)
    else:
        eng.m_start("call", lambda: par(inp))
    if not gen_mode:
        eng.release_parked(next_call=True)
        for step in call.get("steps", []):
            if step[0] not in ("c", "late"):
                continue
            ok = eng.wait_event(lambda: eng.m_busy is None or (eng.burst_over and eng.inflight()), "a batch in flight or the call to return")
            if not ok or eng.m_busy is None:
                break
            if step[0] == "late":
                lo = eng.leftovers()
                if lo and not _complete_one(eng, lo[step[1] % len(lo)], late=True):
                    break
                continue
            fl = eng.inflight()
            if not _complete_one(eng, fl[step[1] % len(fl)]):
                break
            rec["steps_done"] += 1
        if not eng.hang:
            ok, forced = _drain(eng, lambda: eng.m_busy is None, "Parallel.__call__ to return")
            rec["forced"] += forced
        if eng.hang:
            rec["outcome"] = "hang"
            return rec
        kind, val = eng.m_result
        eng.ev("call_end", outcome=kind)
        if kind == "ok":
            rec["outcome"] = "returned"
            rec["results"] = val
        else:
            rec["outcome"] = "raised"
            rec["exception"] = _exc_desc(val)
        return rec

    # ---- generator modes ---------------------------------------------------------
    if not eng.m_wait("Parallel.__call__ to return the generator"):
        rec["outcome"] = "hang"
        return rec
    kind, val = eng.m_result
    eng.m_result = None
    eng.burst_over = True
    eng.ev("call_returned_generator", outcome=kind)
    eng.release_parked(next_call=True)     # callbacks of the PREVIOUS call that were kept parked resume now
    if kind != "ok":
        rec["outcome"] = "raised"
        rec["exception"] = _exc_desc(val)
        return rec
    state = {"finished": False}
    del val
    rec["outcome"] = "generator"
    rec["results"] = []
    ordered = eng.spec["return_as"] == "generator"

    def free_m(why):
        # a pending consumer action may depend on dispatches that only a parked callback performs
        eng.release_parked(next_call=eng.m_busy is not None)
        if eng.m_busy is None:
            collect()
            return True
        ok, forced = _drain(eng, lambda: eng.m_busy is None, why)
        rec["forced"] += forced
        if ok:
            collect()
        return ok

    def collect():
        """Fold the finished consumer command's result into the record."""
        if eng.m_result is None or rec.get("pending") is None:
            return
        name = rec["pending"]
        rec["pending"] = None
        kind2, val2 = eng.m_result
        eng.m_result = None
        eng.ev("consumer_done", op=name, outcome=kind2)
        entry = {"op": name, "seq": eng.m_done_seq}
        if name == "next":
            if kind2 == "ok":
                rec["results"].append(val2)
                entry["value"] = val2
            elif isinstance(val2, StopIteration):
                entry["stop"] = True
                state["finished"] = True
            else:
                entry["exception"] = _exc_desc(val2)
                state["finished"] = True
                rec["exception"] = _exc_desc(val2)
        elif name == "exhaust":
            if kind2 == "ok":
                rec["results"].extend(val2)
                entry["values"] = len(val2)
            else:
                entry["exception"] = _exc_desc(val2)
                rec["exception"] = _exc_desc(val2)
            state["finished"] = True
        elif name in ("close", "drop"):
            if kind2 != "ok":
                entry["exception"] = _exc_desc(val2)
            state["finished"] = True
            rec["closed_seq"] = entry["seq"]
        elif name == "recall":
            entry["raised"] = _exc_desc(val2) if kind2 != "ok" else None
            entry["returned"] = val2 if kind2 == "ok" else None
        rec["consumer"].append(entry)

    def available():
        """Ordered mode: is the next result already computed together with all earlier ones?"""
        need = len(rec["results"])
        count = 0
        for j in sorted((j for j in eng.jobs if j.call_no == k), key=lambda j: j.ordinal):
            if j.state != "done":
                return False
            count += len(j.indices)
            if count > need:
                return True
        return False

    steps = call.get("steps", [])
    for si, step in enumerate(steps):
        if eng.hang:
            break
        op = step[0]
        # ... and no consumer action is under way that needs this call's remaining batches (an exhaust/next waiting for
        # tasks that only the parked callback would dispatch could never return)
        eng.park_next_call_ok = (si + 1 < len(steps) and steps[si + 1][0] in ("close", "drop") and k + 1 < len(eng.spec["calls"])
                                 and eng.m_busy is None)
        if op in ("c", "late"):
            eng.release_parked()
        if op == "c":
            fl = eng.inflight()
            if fl:
                if not _complete_one(eng, fl[step[1] % len(fl)], allow_park=True):
                    break
                rec["steps_done"] += 1
            if eng.m_busy is None:
                collect()
            continue
        if op == "late":
            lo = eng.leftovers()
            if lo:
                _complete_one(eng, lo[step[1] % len(lo)], late=True)
            continue
        if state["finished"] and op != "recall":
            continue
        if not free_m("previous consumer action to return"):
            break
        if state["finished"] and op != "recall":
            continue
        if op == "next":
            rec["pending"] = "next"
            avail = available() if ordered else None
            eng.ev("consumer_start", op="next", available=avail)
            eng.m_start("next", lambda: next(eng.gen_holder[0]))
            eng.release_parked(PARK_HOLD)
            if avail:
                # promptness: must return with no further completion issued
                if not eng.m_wait("next() whose result and all earlier ones are complete"):
                    rec["prompt_violation"] = {"results_before": len(rec["results"])}
                    eng.hang = None
                    # confirm: does it return once more batches complete?
                    ok, forced = _drain(eng, lambda: eng.m_busy is None, "next() after completing further batches")
                    rec["prompt_violation"]["returned_after_more_completions"] = ok
                    rec["prompt_violation"]["forced"] = forced
                    if not ok:
                        break
                collect()
        elif op == "exhaust":
            rec["pending"] = "exhaust"
            eng.ev("consumer_start", op="exhaust")
            eng.m_start("exhaust", lambda: list(eng.gen_holder[0]))
            eng.release_parked(PARK_HOLD)
        elif op == "close":
            rec["pending"] = "close"
            eng.ev("consumer_start", op="close")
            eng.m_start("close", lambda: eng.gen_holder[0].close())
            eng.release_parked(PARK_HOLD)
            if not eng.m_wait("generator.close() to return"):
                break
            collect()
        elif op == "drop":
            rec["pending"] = "drop"
            eng.ev("consumer_start", op="drop")
            def _drop():
                del eng.gen_holder[:]
                gc.collect()
            eng.m_start("drop", _drop)
            eng.release_parked(PARK_HOLD)
            if not eng.m_wait("gc of the dropped generator to return"):
                break
            collect()
        elif op == "recall":
            # only while the run is certainly unfinished: some batch has not completed yet
            if state["finished"] or not any(j.call_no == k and j.state in ("inflight", "running") for j in eng.jobs):
                continue
            rec["pending"] = "recall"
            eng.ev("consumer_start", op="recall")
            small = [(eng.task, (base + 900 + i,), {}) for i in range(3)]

            def _recall():
                r = par(small)
                eng.recall_holder.append(r)   # wrongly accepted: keep it alive, never consume it
                return repr(r)
            eng.m_start("recall", _recall)
            eng.release_parked(PARK_HOLD)
            if not eng.m_wait("overlapping Parallel call to return or raise"):
                break
            collect()
    eng.release_parked()
    if not eng.hang and not state["finished"]:
        if free_m("previous consumer action to return") and not state["finished"]:
            rec["pending"] = "exhaust"
            eng.ev("consumer_start", op="exhaust")
            eng.m_start("exhaust", lambda: list(eng.gen_holder[0]))
            free_m("exhausting the generator")
    elif not eng.hang:
        free_m("last consumer action")
    if eng.hang:
        rec["outcome"] = "hang"
    if not eng.hang and eng.m_busy is None:
        eng.m_start("release", lambda: eng.gen_holder.clear())
        eng.m_wait("release")
        eng.m_result = None
    eng.ev("call_end", outcome=rec["outcome"])
    return rec
