"""Hypothesis strategies for E1 scenarios and shared trace analyses."""

from fractions import Fraction

from hypothesis import strategies as st

PRE_DISPATCH = ["all", 1, 2, 3, 4, 5, 7, 9, "n_jobs", "2*n_jobs", "1.5*n_jobs", "1.5*n_jobs", "3*n_jobs-1", "2 * n_jobs", "n_jobs+1",
                "2.5*n_jobs", "0.7*n_jobs", "1.3*n_jobs"]


def eval_pre_dispatch(pd, n_jobs):
    """Independent evaluation of the documented pre_dispatch forms (tasks)."""
    if pd == "all":
        return None
    if isinstance(pd, int):
        return pd
    expr = pd.replace(" ", "")
    table = {"n_jobs": Fraction(n_jobs), "2*n_jobs": Fraction(2 * n_jobs), "1.5*n_jobs": Fraction(3 * n_jobs, 2),
             "3*n_jobs-1": Fraction(3 * n_jobs - 1), "n_jobs+1": Fraction(n_jobs + 1),
             "2.5*n_jobs": Fraction(5 * n_jobs, 2), "0.7*n_jobs": Fraction(7 * n_jobs, 10), "1.3*n_jobs": Fraction(13 * n_jobs, 10)}
    # a fractional amount allows only its integer part: 7.5 pre-dispatched tasks means at most 7
    return int(table[expr])


def max_batch(spec):
    if spec["batch_size"] == "auto":
        if spec.get("auto_mode") == "mixin":
            return 64      # the heuristic at most doubles per completed batch; histories here are short
        return max(spec.get("auto_sizes") or [1])
    return spec["batch_size"]


@st.composite
def configs(draw, return_as=("list",), inputs=("list", "generator", "iterator")):
    n_jobs = draw(st.sampled_from([2, 2, 3, 3, 4, 4, 5, 6]))
    bs = draw(st.sampled_from([1, 1, 2, 3, 7, "auto"]))
    spec = {
        "n_jobs": n_jobs,
        "batch_size": bs,
        "auto_sizes": draw(st.lists(st.integers(1, 8), min_size=1, max_size=5)) if bs == "auto" else [],
        "pre_dispatch": draw(st.sampled_from(PRE_DISPATCH)),
        "return_as": draw(st.sampled_from(list(return_as))),
        "managed": draw(st.booleans()),
        "input": draw(st.sampled_from(list(inputs))),
        "timeout": None,
    }
    if bs == "auto" and draw(st.booleans()):
        # joblib's own auto-batching heuristic, driven by drawn (not wall-clock) batch durations
        spec["auto_mode"] = "mixin"
        spec["durations"] = draw(st.lists(st.sampled_from([0.0001, 0.001, 0.01, 0.05, 0.19, 0.2, 0.5, 1.0, 1.9, 2.1, 3.0, 5.0, 30.0]),
                                          min_size=1, max_size=8))
    return spec


def n_tasks(spec):
    """Lengths straddling every look-ahead and batch boundary."""
    p = eval_pre_dispatch(spec["pre_dispatch"], spec["n_jobs"]) or 6
    b = max_batch(spec)
    bound = p + spec["n_jobs"] * b
    marks = sorted(set([0, 1, 2, b - 1, b, b + 1, p - 1, p, p + 1, spec["n_jobs"] * b, spec["n_jobs"] * b + 1, bound - 1, bound,
                        bound + 1, 2 * bound, 3 * bound + 5]))
    marks = [m for m in marks if 0 <= m <= 120]
    return st.sampled_from(marks) | st.integers(0, min(120, 3 * bound + 5))


def complete_steps(max_size=40):
    return st.lists(st.tuples(st.just("c"), st.integers(0, 7)).map(list), max_size=max_size)


def gates(kinds=("iter", "submit", "batchsize", "retrieve", "batchdone"), max_gates=3, max_at=12):
    do = st.lists(st.tuples(st.sampled_from(["c", "c", "late"]), st.integers(0, 5)).map(list), min_size=1, max_size=2)
    g = st.fixed_dictionaries({"gate": st.sampled_from(list(kinds)), "at": st.integers(0, max_at), "do": do,
                               "park": st.sampled_from([False, False, True])})
    # a worker thread parked early inside a hook that runs under joblib's lock, until the next consumer action started
    parked = st.fixed_dictionaries({"gate": st.sampled_from(["iter", "retrieve", "retrieve", "batchdone"]), "at": st.integers(0, 6),
                                    "do": st.just([]), "park": st.just(True)})
    # a completion callback delayed in batch_completed() (outside joblib's lock) until the NEXT call is under way
    stale = st.fixed_dictionaries({"gate": st.just("batchdone"), "at": st.integers(0, 4), "do": st.just([]), "park": st.just("next_call")})
    # completions left over from an earlier (failed / abandoned) call that arrive while the NEXT call is being set up
    at_setup = st.fixed_dictionaries({"gate": st.just("configure"), "at": st.just(0), "park": st.just(False),
                                      "do": st.lists(st.tuples(st.just("late"), st.integers(0, 5)).map(list), min_size=1, max_size=3)})
    return st.lists(st.one_of(g, g, g, parked, stale, at_setup), max_size=max_gates, unique_by=lambda x: (x["gate"], x["at"]))


# ---- trace analyses shared by the property modules --------------------------------------

def call_events(report, k):
    return [e for e in report["trace"] if e["call"] == k]


def jobs_of(report, k):
    return sorted((j for j in report["jobs"] if j["call"] == k), key=lambda j: j["ordinal"])


def schedule_features(report, k):
    """Abstract description of what the schedule did in call k (for non-triviality and distinctness)."""
    js = jobs_of(report, k)
    comp = [j for j in js if j["completed_seq"] is not None]
    order = [j["ordinal"] for j in sorted(comp, key=lambda j: j["completed_seq"])]
    out_of_order = any(a > b for a, b in zip(order, order[1:]))
    evs = call_events(report, k)
    sync = sum(1 for e in evs if e["kind"] == "complete_start" and e.get("sync"))
    gates_hit = [(e["gate"], e["at"]) for e in evs if e["kind"] == "gate_hit"]
    probes = 0
    held = None
    for e in evs:
        if e["kind"] == "gate_hit":
            held = e
        elif e["kind"] == "gate_released":
            held = None
        elif held is not None and e["kind"] == "complete_start" and not e.get("sync"):
            probes += 1
    return {"out_of_order": out_of_order, "sync": sync, "gates": gates_hit, "probes": probes,
            "n_batches": len(js), "order": order}
