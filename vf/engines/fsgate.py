"""Python side of the E3 interposer (fsgate.so must be LD_PRELOADed into this process)."""
import ctypes
import os

LOG, CRASH, TURN = 1, 2, 3
_lib = None


def lib():
    global _lib
    if _lib is None:
        _lib = ctypes.CDLL(None)
        try:
            _lib.fsgate_arm.argtypes = [ctypes.c_char_p, ctypes.c_int, ctypes.c_long, ctypes.c_long, ctypes.c_int,
                                        ctypes.c_int, ctypes.c_int, ctypes.c_int]
            _lib.fsgate_count.restype = ctypes.c_long
        except AttributeError:
            raise RuntimeError("fsgate.so is not preloaded (LD_PRELOAD=%r)" % os.environ.get("LD_PRELOAD"))
    return _lib


def arm(root, mode, kill_at=-1, tear=0, logfd=-1, reqfd=-1, grantfd=-1, ident=0):
    lib().fsgate_arm(os.fsencode(os.path.realpath(root)), mode, kill_at, tear, logfd, reqfd, grantfd, ident)


def thread_participant(ident, grantfd):
    lib().fsgate_thread(ident, grantfd)


def disarm():
    lib().fsgate_disarm()


def count():
    return lib().fsgate_count()


def preloaded():
    return "fsgate.so" in os.environ.get("LD_PRELOAD", "")
