"""E2 - real-backend harness (filled in later)."""
