"""E2 - the generated Parallel cases of C01 / C04 / C16 on the REAL backends (sequential, threading,
loky, multiprocessing): uncontrolled schedules perturbed by drawn task sleeps.  Tasks log their own
start/end with O_APPEND single writes (vf.tasks.rtask), which gives exactly-once counts."""

import gc
import os
import signal
import warnings

from hypothesis import strategies as st

from ..core import Inconclusive, Violation

WATCHDOG = 120.0


class _Hang(BaseException):
    pass


def _alarm(signum, frame):
    raise _Hang()


def _guard(fn, what, sig=None):
    """Run fn under a watchdog far above the normal latency (the statement says the call terminates)."""
    signal.signal(signal.SIGALRM, _alarm)
    signal.setitimer(signal.ITIMER_REAL, WATCHDOG, 5.0)
    try:
        try:
            return "ok", fn()
        finally:
            signal.setitimer(signal.ITIMER_REAL, 0)
    except _Hang:
        raise Violation("%s did not return within %.0f s" % (what, WATCHDOG), signature=sig or ["real-hang"])
    except Exception as e:
        return "raise", e


def _configs(backends, return_as=("list",)):
    return st.fixed_dictionaries({
        "mode": st.just("real"),
        "backend": st.sampled_from(backends),
        "n_jobs": st.sampled_from([2, 2, 3, 4]),
        "batch_size": st.sampled_from([1, 1, 2, 3, 7, "auto"]),
        "pre_dispatch": st.sampled_from(["all", 1, 3, "n_jobs", "2*n_jobs", "1.5*n_jobs"]),
        "return_as": st.sampled_from(list(return_as)),
        "managed": st.booleans(),
    })


def _parallel(spec):
    from joblib import Parallel
    kw = dict(n_jobs=1 if spec["backend"] == "sequential" else spec["n_jobs"], batch_size=spec["batch_size"],
              pre_dispatch=spec["pre_dispatch"], return_as=spec["return_as"])
    if spec["backend"] != "sequential":
        kw["backend"] = spec["backend"]
    return Parallel(**kw)


def _items(call, base, logpath, as_generator):
    from joblib import delayed

    from vf import tasks
    sleeps = call.get("sleeps") or [0]
    fail = {int(k): v for k, v in call.get("fail", {}).items()}
    lst = [delayed(tasks.rtask)(base + i, sleeps[i % len(sleeps)], logpath, fail.get(i)) for i in range(call["n"])]
    return (x for x in lst) if as_generator else lst


def _exec_counts(logpath):
    counts = {}
    try:
        with open(logpath) as f:
            for ln in f.read().splitlines():
                k, idx = ln.split()[:2]
                if k == "E":
                    counts[int(idx)] = counts.get(int(idx), 0) + 1
    except OSError:
        pass
    return counts


def _where(spec, ci, call):
    return "real backend=%s n_jobs=%s batch_size=%r pre_dispatch=%r return_as=%s managed=%s call %d/%d n=%d sleeps=%r fail=%r" % (
        spec["backend"], spec["n_jobs"], spec["batch_size"], spec["pre_dispatch"], spec["return_as"], spec["managed"], ci + 1,
        len(spec["calls"]), call["n"], call.get("sleeps"), call.get("fail"))


# ---- C01 -----------------------------------------------------------------------------------------

def c01_strategy(ctx):
    call = st.fixed_dictionaries({"n": st.sampled_from([0, 1, 2, 3, 5, 8, 13, 21, 40]) | st.integers(0, 40),
                                  "sleeps": st.lists(st.sampled_from([0, 0, 1, 3, 10]), min_size=1, max_size=5),
                                  "gen_input": st.booleans()})
    base = _configs(["sequential", "threading", "threading", "loky", "loky", "multiprocessing"], ("list", "list", "generator"))
    hold = st.one_of(st.none(), st.integers(0, 6))
    return st.tuples(base, st.lists(call, min_size=1, max_size=2), hold).map(lambda t: {**t[0], "calls": t[1], "hold": t[2]}).filter(
        lambda s: not (s["backend"] == "multiprocessing" and s["return_as"] != "list"))


def c01_stress_strategy(ctx):
    """Thread backend under a 1 us interpreter switch interval: pre-emption between any two bytecodes of the
    dispatching caller and the completion callbacks, many trivial tasks, large numeric pre_dispatch."""
    return st.fixed_dictionaries({
        "mode": st.just("real"), "stress": st.just(True), "backend": st.just("threading"),
        "n_jobs": st.sampled_from([2, 3, 4, 8]), "batch_size": st.sampled_from([1, 1, 2, "auto"]),
        "pre_dispatch": st.sampled_from([50, 200, 1000, "all", "2*n_jobs", "3*n_jobs-1"]),
        "return_as": st.sampled_from(["list", "generator"]), "managed": st.booleans(),
        "calls": st.lists(st.fixed_dictionaries({"n": st.sampled_from([100, 300, 600, 1000]), "sleeps": st.just([0]),
                                                 "gen_input": st.booleans()}), min_size=3, max_size=6),
    })


def run_c01(spec):
    import sys
    if spec.get("stress"):
        old = sys.getswitchinterval()
        sys.setswitchinterval(1e-6)
        try:
            return _run_c01(spec)
        finally:
            sys.setswitchinterval(old)
    return _run_c01(spec)


def _run_c01(spec):
    warnings.simplefilter("ignore")
    scratch = os.environ.get("VF_SCRATCH", "/tmp")
    logpath = os.path.join(scratch, "real-%d.log" % os.getpid())
    par = _parallel(spec)
    nontrivial = False
    if spec["managed"]:
        par.__enter__()
    try:
        first_ci = 0
        if spec.get("hold") is not None and spec["return_as"] == "generator" and len(spec["calls"]) >= 2 and spec["calls"][0]["n"] >= 2:
            # the first generator is only partly consumed; once all its tasks are done and one more result has been pulled the
            # object accepts a new call: both generators must still deliver exactly their own values, in order
            first_ci = 2
            c1, c2 = spec["calls"][0], spec["calls"][1]
            if os.path.exists(logpath):
                os.unlink(logpath)
            where = _where(spec, 0, c1) + " [first generator held after %d results while the next call runs]" % spec["hold"]
            import time as _t

            def interleaved():
                g1 = par(_items(c1, 0, logpath, c1.get("gen_input")))
                k = min(spec["hold"], c1["n"] - 2)
                got1 = [next(g1) for _ in range(k)]
                t_end = _t.time() + 60
                while len(_exec_counts(logpath)) < c1["n"] and _t.time() < t_end:
                    _t.sleep(0.005)
                got1.append(next(g1))
                try:
                    g2 = par(_items(c2, 1000, logpath, c2.get("gen_input")))
                    got2 = list(g2)
                    got1.extend(g1)
                except RuntimeError:
                    # the first run is still considered unfinished: finish it, then call again
                    got1.extend(g1)
                    got2 = list(par(_items(c2, 1000, logpath, c2.get("gen_input"))))
                return got1, got2
            kind, val = _guard(interleaved, where)
            if kind == "raise":
                raise Violation("%s raised %s: %s although no task fails" % (where, type(val).__name__, str(val)[:200]), signature=["real-raises"])
            for got, cc, b in ((val[0], c1, 0), (val[1], c2, 1000)):
                want = [("r", b + i, (b + i) % 3) for i in range(cc["n"])]
                if got != want:
                    raise Violation("%s: the %s generator delivered %r, sequential loop gives %r" % (where, "first" if b == 0 else "second", got[:30], want[:30]),
                                    signature=["real-results"])
            counts = _exec_counts(logpath)
            if any(c != 1 for c in counts.values()) or len(counts) != c1["n"] + c2["n"]:
                raise Violation("%s: tasks not executed exactly once: %r" % (where, {k: v for k, v in counts.items() if v != 1} or len(counts)),
                                signature=["real-exactly-once"])
            nontrivial = True
        for ci, call in enumerate(spec["calls"]):
            if ci < first_ci:
                continue
            if os.path.exists(logpath):
                os.unlink(logpath)
            base = 1000 * ci
            where = _where(spec, ci, call)
            kind, val = _guard(lambda: list(par(_items(call, base, logpath, call.get("gen_input")))), where)
            if kind == "raise":
                raise Violation("%s raised %s: %s although no task fails" % (where, type(val).__name__, str(val)[:200]), signature=["real-raises"])
            want = [("r", base + i, (base + i) % 3) for i in range(call["n"])]
            if val != want:
                raise Violation("%s returned %r, sequential loop gives %r" % (where, val[:30], want[:30]), signature=["real-results"])
            counts = _exec_counts(logpath)
            if sorted(counts) != [base + i for i in range(call["n"])] or any(c != 1 for c in counts.values()):
                raise Violation("%s: tasks not executed exactly once: %r" % (where, {k: v for k, v in counts.items() if v != 1} or sorted(counts)[:20]),
                                signature=["real-exactly-once"])
            if spec["backend"] != "sequential" and call["n"] >= 2:
                nontrivial = True
    finally:
        if spec["managed"]:
            par.__exit__(None, None, None)
        if os.path.exists(logpath):
            os.unlink(logpath)
    return {"nontrivial": nontrivial, "classes": ["real", "real-backend=" + spec["backend"], "return_as=" + spec["return_as"]]
            + (["switch-interval-stress"] if spec.get("stress") else [])}


# ---- C04 --------------------------------------------------------------------------------------------

def c04_strategy(ctx):
    @st.composite
    def calls(draw):
        out = []
        for _ in range(draw(st.integers(2, 4))):
            n = draw(st.integers(1, 20))
            fail = {}
            if draw(st.integers(0, 2)) > 0:
                for idx in draw(st.lists(st.integers(0, n - 1), min_size=1, max_size=2, unique=True)):
                    fail[str(idx)] = draw(st.sampled_from(["value", "key", "custom", "os"]))
            out.append({"n": n, "fail": fail, "sleeps": draw(st.lists(st.sampled_from([0, 0, 2, 8]), min_size=1, max_size=4)),
                        "gen_input": draw(st.booleans())})
        return out
    base = _configs(["threading", "loky", "loky", "multiprocessing"], ("list", "list", "generator"))
    return st.tuples(base, calls()).map(lambda t: {**t[0], "calls": t[1]}).filter(
        lambda s: not (s["backend"] == "multiprocessing" and s["return_as"] != "list"))


def _expected_exc(kind, idx):
    from vf import tasks
    e = {"value": ValueError("x", idx), "key": KeyError(idx), "custom": tasks.TaskError("task", idx), "os": OSError(2, "msg-%d" % idx)}[kind]
    return (type(e).__name__, repr(e.args))


def c04_stress_strategy(ctx):
    """Thread backend, 1 us switch interval, failing calls followed by clean ones on the same object: the abort path
    races with dispatching callbacks and with the caller's own pre-dispatch loop."""
    @st.composite
    def calls(draw):
        out = []
        for _ in range(draw(st.integers(4, 10))):
            n = draw(st.sampled_from([20, 60, 200, 400]))
            fail = {}
            if draw(st.integers(0, 1)):
                for idx in draw(st.lists(st.integers(0, n - 1) | st.integers(0, 5), min_size=1, max_size=2, unique=True)):
                    fail[str(idx)] = draw(st.sampled_from(["value", "key", "custom", "os"]))
            out.append({"n": n, "fail": fail, "sleeps": draw(st.sampled_from([[0], [0, 0, 0.3], [0.2]])), "gen_input": draw(st.booleans())})
        return out
    base = st.fixed_dictionaries({
        "mode": st.just("real"), "stress": st.just(True), "backend": st.just("threading"),
        "n_jobs": st.sampled_from([2, 3, 4, 8]), "batch_size": st.sampled_from([1, 1, 2, "auto"]),
        "pre_dispatch": st.sampled_from([1, "n_jobs", "2*n_jobs", 50, 1000, "all"]),
        "return_as": st.sampled_from(["list", "list", "generator", "generator_unordered"]), "managed": st.booleans()})
    return st.tuples(base, calls()).map(lambda t: {**t[0], "calls": t[1]})


def run_c04(spec):
    import sys
    if spec.get("stress"):
        old = sys.getswitchinterval()
        sys.setswitchinterval(1e-6)
        try:
            return _run_c04(spec)
        finally:
            sys.setswitchinterval(old)
    return _run_c04(spec)


def _run_c04(spec):
    warnings.simplefilter("ignore")
    scratch = os.environ.get("VF_SCRATCH", "/tmp")
    logpath = os.path.join(scratch, "real-%d.log" % os.getpid())
    par = _parallel(spec)
    nontrivial = False
    prev_failed = False
    if spec["managed"]:
        par.__enter__()
    try:
        for ci, call in enumerate(spec["calls"]):
            if os.path.exists(logpath):
                os.unlink(logpath)
            base = 1000 * ci
            where = _where(spec, ci, call)
            kind, val = _guard(lambda: list(par(_items(call, base, logpath, call.get("gen_input")))), where, ["real-hang", spec["backend"]])
            fail = {int(k): v for k, v in call["fail"].items()}
            if fail:
                if kind != "raise":
                    raise Violation("%s returned %r instead of raising one of its tasks' exceptions" % (where, val[:10]), signature=["real-swallowed"])
                allowed = [_expected_exc(k, base + i) for i, k in fail.items()]
                got = (type(val).__name__, repr(val.args))
                if got not in allowed:
                    raise Violation("%s raised %r, its failing tasks raise %r" % (where, got, allowed), signature=["real-wrong-exception"])
                prev_failed = True
            else:
                if kind == "raise":
                    raise Violation("%s raised %s: %s although nothing fails in it%s" % (where, type(val).__name__, str(val)[:200],
                                                                                      " (the previous call failed)" if prev_failed else ""),
                                    signature=["real-clean-call-raises"])
                want = [("r", base + i, (base + i) % 3) for i in range(call["n"])]
                if spec["return_as"] == "generator_unordered":
                    val, want = sorted(val), sorted(want)
                if val != want:
                    raise Violation("%s returned %r, expected %r%s" % (where, val[:30], want[:30], " (the previous call failed)" if prev_failed else ""),
                                    signature=["real-leftover" if prev_failed else "real-results"])
                if prev_failed:
                    nontrivial = True
                prev_failed = False
    finally:
        if spec["managed"]:
            try:
                par.__exit__(None, None, None)
            except Exception:
                pass
        if os.path.exists(logpath):
            os.unlink(logpath)
    return {"nontrivial": nontrivial, "classes": ["real", "real-backend=" + spec["backend"]] + (["switch-interval-stress"] if spec.get("stress") else [])}


# ---- C16 ----------------------------------------------------------------------------------------------

def c16_strategy(ctx):
    call = st.fixed_dictionaries({"n": st.integers(1, 24), "sleeps": st.lists(st.sampled_from([0, 0, 2, 10, 30]), min_size=1, max_size=5),
                                  "action": st.sampled_from(["exhaust", "exhaust", "close", "drop", "recall"]), "after": st.integers(0, 6)})
    base = _configs(["threading", "loky", "loky"], ("generator", "generator_unordered"))
    return st.tuples(base, st.lists(call, min_size=2, max_size=3)).map(lambda t: {**t[0], "calls": t[1]})


def c16_stress_strategy(ctx):
    """Thread backend, 1 us switch interval: the consumer is pre-empted anywhere in the retrieval loop while completion
    callbacks register results and dispatch further batches."""
    call = st.fixed_dictionaries({"n": st.sampled_from([30, 30, 50, 150, 400]), "sleeps": st.sampled_from([[0], [0, 0, 0, 1], [1], [0, 0.2, 0.4]]),
                                  "action": st.sampled_from(["exhaust", "exhaust", "exhaust", "close"]), "after": st.integers(0, 40)})

    def expand(spec):
        # short runs are repeated: the races looked for need a pre-emption inside a window of a few bytecodes
        reps = max(1, 600 // max(1, sum(c["n"] for c in spec["calls"])))
        return {**spec, "calls": spec["calls"] * reps}
    return st.fixed_dictionaries({
        "mode": st.just("real"), "stress": st.just(True), "backend": st.just("threading"),
        "n_jobs": st.sampled_from([2, 3, 4, 8]), "batch_size": st.sampled_from([1, 1, 2, "auto"]),
        "pre_dispatch": st.sampled_from([1, 1, 3, "n_jobs", "2*n_jobs", 50, "all"]),
        "return_as": st.sampled_from(["generator", "generator_unordered", "generator_unordered"]), "managed": st.booleans(),
        "calls": st.lists(call, min_size=3, max_size=6),
    }).map(expand)


def run_c16(spec):
    import sys
    if spec.get("stress"):
        old = sys.getswitchinterval()
        sys.setswitchinterval(1e-6)
        try:
            return _run_c16(spec)
        finally:
            sys.setswitchinterval(old)
    return _run_c16(spec)


def _run_c16(spec):
    warnings.simplefilter("ignore")
    scratch = os.environ.get("VF_SCRATCH", "/tmp")
    logpath = os.path.join(scratch, "real-%d.log" % os.getpid())
    par = _parallel(spec)
    ordered = spec["return_as"] == "generator"
    nontrivial = False
    if spec["managed"]:
        par.__enter__()
    try:
        for ci, call in enumerate(spec["calls"]):
            if os.path.exists(logpath):
                os.unlink(logpath)
            base = 1000 * ci
            where = _where(spec, ci, call) + " action=%s after=%d" % (call["action"], call["after"])
            want = [("r", base + i, (base + i) % 3) for i in range(call["n"])]
            holder = {}
            action = call["action"] if ci < len(spec["calls"]) - 1 else "exhaust"
            k = min(call["after"], call["n"])
            if action == "recall":
                # the last task sleeps 0.6 s and nothing is consumed before the overlapping call (with batching, consuming
                # even one result may need the last batch): the run is certainly unfinished at that moment
                k = 0
                call = dict(call, sleeps=[0] * (call["n"] - 1) + [600])

            def start():
                holder["g"] = par(_items(call, base, logpath, True))
            kind, val = _guard(start, where + " [call]")
            if kind == "raise":
                raise Violation("%s raised %s: %s when called (previous run finished or was abandoned)" % (where, type(val).__name__, str(val)[:200]),
                                signature=["real-call-raises"])
            got = []

            def take():
                for _ in range(k):
                    got.append(next(holder["g"]))
            kind, val = _guard(take, where + " [next x%d]" % k)
            if kind == "raise":
                raise Violation("%s: next() raised %s: %s" % (where, type(val).__name__, str(val)[:200]), signature=["real-next-raises"])
            if action == "recall":
                kind, val = _guard(lambda: par(_items({"n": 2, "sleeps": [0]}, base + 900, logpath, False)), where + " [overlapping call]")
                if kind != "raise" or not isinstance(val, RuntimeError):
                    raise Violation("%s: a call during the unfinished run %s instead of raising RuntimeError"
                                    % (where, "returned" if kind == "ok" else "raised %s" % type(val).__name__), signature=["real-recall"])
                nontrivial = True
                action = "exhaust"
            if action == "exhaust":
                kind, val = _guard(lambda: got.extend(list(holder["g"])), where + " [exhaust]")
                if kind == "raise":
                    raise Violation("%s: exhausting the generator raised %s: %s" % (where, type(val).__name__, str(val)[:200]), signature=["real-next-raises"])
                if (got != want) if ordered else (sorted(got) != sorted(want)):
                    raise Violation("%s: generator delivered %r, expected %s%r" % (where, got[:30], "" if ordered else "(any order) ", want[:30]),
                                    signature=["real-order" if ordered else "real-exactly-once"])
            elif action in ("close", "drop"):
                if ordered and got != want[:len(got)]:
                    raise Violation("%s: generator delivered %r, expected the prefix %r" % (where, got, want[:len(got)]), signature=["real-order"])
                if action == "close":
                    kind, val = _guard(lambda: holder["g"].close(), where + " [close]")
                else:
                    def drop():
                        holder.clear()
                        gc.collect()
                    kind, val = _guard(drop, where + " [drop]")
                if kind == "raise":
                    raise Violation("%s: abandoning the generator raised %s: %s" % (where, type(val).__name__, str(val)[:200]), signature=["real-abandon-raises"])
                if k < call["n"]:
                    nontrivial = True
            holder.clear()
            gc.collect()
    finally:
        if spec["managed"]:
            try:
                par.__exit__(None, None, None)
            except Exception:
                pass
        if os.path.exists(logpath):
            os.unlink(logpath)
    return {"nontrivial": nontrivial, "classes": ["real", "real-backend=" + spec["backend"], "return_as=" + spec["return_as"]]
            + (["switch-interval-stress"] if spec.get("stress") else [])}

