"""E6 - self-describing pure functions for the Memory checks.

Generated modules define f_<i>/K.m_<i> whose body is `return _vf_body(locals())`:
the call is logged (in-process list and, when VF_EXEC_LOG is set, an O_APPEND
file) and the return value is (function name, canonical JSON of the bound,
non-ignored arguments).  Hence the correct value of any call is known without
trusting joblib, and a value served from another key/function is visibly wrong.
"""

import json
import os
import sys

from .values import P, Q, canon, fhex

EXEC_LOG = []            # in-process execution log: (name, canon)
IGNORE = {}              # function name -> set of ignored parameter names
VERSION = {}             # optional: function name -> version tag (C12)


def to_spec(v):
    """Inverse of values.build for ref-free values."""
    if v is None:
        return ["none"]
    t = type(v)
    if t is bool:
        return ["bool", v]
    if t is int:
        return ["int", str(v)]
    if t is float:
        return ["float", fhex(v)]
    if t is complex:
        return ["complex", fhex(v.real), fhex(v.imag)]
    if t is str:
        return ["str", v]
    if t is bytes:
        return ["bytes", v.hex()]
    if t is bytearray:
        return ["bytearray", bytes(v).hex()]
    if t is tuple:
        return ["tuple", [to_spec(x) for x in v]]
    if t is list:
        return ["list", [to_spec(x) for x in v]]
    if t is set:
        return ["set", [to_spec(x) for x in v]]
    if t is frozenset:
        return ["frozenset", [to_spec(x) for x in v]]
    if t is dict:
        return ["dict", [[to_spec(k), to_spec(x)] for k, x in v.items()]]
    if t is P:
        return ["obj", "P", [[k, to_spec(x)] for k, x in v.__dict__.items()]]
    if t is Q:
        return ["obj", "Q", [["x", to_spec(v.x)], ["y", to_spec(v.y)]]]
    if hasattr(v, "vf_tag"):
        return ["obj", "K", [["tag", to_spec(v.vf_tag)]]]
    raise TypeError("to_spec: unsupported %r" % (t,))


def describe(name, bound, ignore=()):
    """Canonical description of a call: what the function returns."""
    items = {k: canon(to_spec(v)) for k, v in bound.items() if k not in ignore}
    return (name, json.dumps(items, sort_keys=True))


def _vf_body(loc):
    name = sys._getframe(1).f_code.co_name
    val = describe(name, loc, IGNORE.get(name, ()))
    if name in VERSION:
        val = val + (VERSION[name],)
    EXEC_LOG.append(val)
    path = os.environ.get("VF_EXEC_LOG")
    if path:
        fd = os.open(path, os.O_WRONLY | os.O_APPEND | os.O_CREAT, 0o644)
        try:
            os.write(fd, (json.dumps([os.getpid(), name, val[1]]) + "\n").encode())
        finally:
            os.close(fd)
    return val
