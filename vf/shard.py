"""One shard of a search (or one replay) in its own interpreter."""

import faulthandler
import importlib
import json
import os
import sys
import time
import traceback
import warnings

from .core import HarnessError, Inconclusive, ShardCtx, Violation, check_repo_import


def main():
    faulthandler.enable()
    if sys.argv[1] == "--replay":
        a = json.loads(sys.argv[2])
        mod = importlib.import_module("vf.props.%s" % a["pid"].lower())
        check_repo_import()
        os.environ["VF_SCRATCH"] = a["scratch"]
        out = {}
        try:
            prep = getattr(mod, "prepare", None)
            ctx = ShardCtx(mod, "quick", 0, 0, 1, [], a["scratch"], phase="replay")
            if prep:
                prep(ctx)
            mod.run_case(a["spec"])
            out = {"status": "ok"}
        except Violation as v:
            sig = v.signature
            if sig is None and hasattr(mod, "signature"):
                sig = mod.signature(a["spec"])
            out = {"status": "violation", "msg": v.msg, "signature": sig}
        except Inconclusive as e:
            out = {"status": "inconclusive", "msg": str(e)}
        finally:
            fin = getattr(mod, "finish", None)
            if fin:
                try:
                    fin(None)
                except Exception:
                    pass
        with open(a["out"], "w") as f:
            json.dump(out, f, default=repr)
        return 0

    a = json.loads(sys.argv[1])
    mod = importlib.import_module("vf.props.%s" % a["pid"].lower())
    check_repo_import()
    os.environ["VF_SCRATCH"] = a["scratch"]
    ctx = ShardCtx(mod, a["tier"], a["seed"], a["shard"], a["n_shards"], a["excluded"], a["scratch"], a["phase"])
    ctx.soft_deadline = a["soft_deadline"]
    try:
        prep = getattr(mod, "prepare", None)
        if prep:
            prep(ctx)
        mod.shard(ctx)
    except HarnessError as e:
        print("HarnessError:", e)
        return 3
    except Exception:
        traceback.print_exc()
        return 3
    finally:
        fin = getattr(mod, "finish", None)
        if fin:
            try:
                fin(ctx)
            except Exception:
                traceback.print_exc()
    with open(a["out"], "w") as f:
        json.dump(ctx.stats.to_json(), f, default=repr)
    sys.stdout.flush()
    # hard exit: no atexit of joblib/loky may hang a finished shard
    os._exit(0)


if __name__ == "__main__":
    rc = main()
    sys.stdout.flush()
    os._exit(rc or 0)
