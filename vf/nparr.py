"""numpy helpers importable by worker processes (C19)."""
import hashlib

import numpy as np


class CustomArray(np.ndarray):
    """Harness ndarray subclass."""


def _descr(dt):
    return repr(dt.descr) if dt.names else dt.str


def _backing_memmap(a):
    b = a
    while b is not None:
        if isinstance(b, np.memmap):
            return True
        b = getattr(b, "base", None)
    return False


def _data_bytes(arr):
    arr = np.asarray(arr)
    if arr.dtype.names:
        return b"".join(_data_bytes(arr[n]) for n in arr.dtype.names)
    return np.ascontiguousarray(arr).tobytes()


def probe(arr, i):
    """What a worker task sees of the array it received: the VALUES (byte order normalised to native, since numpy's own
    pickling does not preserve it), shape and type."""
    if arr.dtype.hasobject:
        body = repr([(type(x).__name__, x) for x in arr.reshape(-1).tolist()] if arr.ndim else [arr.item()])
        digest = hashlib.sha1(body.encode()).hexdigest()
        nat = arr
    else:
        nat = np.asarray(arr).astype(arr.dtype.newbyteorder("="))
        digest = hashlib.sha1(_data_bytes(nat)).hexdigest()
    return {"dtype": _descr(nat.dtype), "shape": list(arr.shape), "sha1": digest, "type": type(arr).__name__,
            "memmap_backed": _backing_memmap(arr), "writeable": bool(arr.flags.writeable)}
