#!/bin/sh
# Offline setup: third-party wheels into /verif/.deps and the LD_PRELOAD interposer into /verif/build.
# usage: sh setup.sh [deps|fsgate|all]
HERE="$(cd "$(dirname "$0")" && pwd)"
cd "$HERE" || exit 2
what="${1:-all}"
rc=0
if [ "$what" = deps ] || [ "$what" = all ]; then
  if [ ! -d .deps/numpy ]; then
    /venv/bin/python -m pip install -q --no-index --find-links /opt/veriftools/wheels --target .deps numpy atheris >/dev/null 2>&1 \
      || /venv/bin/python -m pip install -q --no-index --find-links /opt/veriftools/wheels --target .deps numpy || rc=1
  fi
  /venv/bin/python -c "import hypothesis" 2>/dev/null \
    || /venv/bin/python -m pip install -q --no-index --find-links /opt/veriftools/wheels --target .deps_hyp hypothesis || rc=1
fi
if [ "$what" = fsgate ] || [ "$what" = all ]; then
  mkdir -p build
  if [ -f vf/engines/fsgate.c ]; then
    gcc -shared -fPIC -O2 -o build/fsgate.so vf/engines/fsgate.c -ldl -lpthread || rc=1
  fi
fi
exit $rc
