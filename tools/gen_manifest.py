#!/venv/bin/python
"""Regenerate MANIFEST.json from the table below (kept in one place so the
manifest is always schema-valid).  Run: /venv/bin/python tools/gen_manifest.py"""

import json
import os

ROOT = os.path.dirname(os.path.dirname(os.path.abspath(__file__)))

ALL = ["C%02d" % i for i in range(1, 21)]

CHECKS = {}


def check(pid, category, text, note, technique, design_ref, engine=None, thorough=True):
    CHECKS[pid] = {
        "property_id": pid,
        "quick_cmd": "./check %s --tier quick" % pid,
        **({"thorough_cmd": "./check %s --tier thorough" % pid} if thorough else {}),
        "evidence_file": "evidence/%s.json" % pid,
        "replay_cmd_template": "./check %s --replay {path}" % pid,
        **({"engine": engine} if engine else {}),
        "level_claimed": {"category": category, "text": text, "design_ref": design_ref},
        "level_note": note,
        "technique": technique,
    }


check(
    "C07", "exploration",
    "Exhaustive differential test: every signature with <=5 parameters (quick; <=6 thorough) over the five parameter "
    "kinds x default/no default, every call shape Python accepts, function and bound-method carriers, every ignore "
    "list of size <=2; filter_args must equal inspect.Signature.bind + apply_defaults.  Thorough adds "
    "Hypothesis-sampled signatures with 7-8 parameters.  The stated finite domain is covered completely.",
    "Trusts inspect.Signature.bind as Python's binding semantics; signatures with more parameters than enumerated are "
    "only sampled; C-level callables and partials are outside filter_args' inspected domain.",
    "exhaustive enumeration + differential oracle (inspect.Signature.bind); Hypothesis sampling beyond the bound",
    "DESIGN.md section 4 C07", engine="E5 sigs",
)

check(
    "C08", "exploration",
    "Hypothesis-generated pools of near-colliding values from a recursive typed universe; each value is rebuilt and hashed "
    "(md5+sha1) in four persistent interpreters with different PYTHONHASHSEED, under drawn insertion permutations and with "
    "freshly built strings - all digests must agree - and every pair of the pool is compared against an independent "
    "canonical form (equal canon <=> equal digest).  Random search, no exhaustiveness claimed.",
    "The canonical form defines value identity (type-tagged, order-insensitive); aliasing of non-string sub-objects, NaN as "
    "key/element and numpy values are outside the generated domain; digests are compared, pre-image resistance is not the claim.",
    "Hypothesis generated-input search; metamorphic (permutation / hash-seed / process) and all-pairs differential oracle vs canonical form",
    "DESIGN.md section 4 C08", engine="E4 values",
)

check(
    "C03", "exploration",
    "Hypothesis-generated objects (recursive typed universe with payloads around the 8 KiB block / 64 KiB frame / 1 MiB buffer "
    "sizes, shared and cyclic references, user classes) crossed with compress argument forms, protocols 0..5, targets "
    "(path with neutral/matching/mismatching extension, file object, BytesIO) and a rename before loading.  Oracle: "
    "alias-aware type-exact deep equality of load(dump(x)), dump's return value, the promised compressor's magic, and the "
    "stdlib decoder expanding the output to the uncompressed dump.  Random search.",
    "Deep equality is the harness' own; numpy absent (C19); objects only picklable by cloudpickle and the legacy multi-file "
    "format are not generated; lz4 only checked to be rejected.",
    "Hypothesis generated-input search; round-trip oracle + differential oracle vs stdlib decoders",
    "DESIGN.md section 4 C03", engine="E4 values",
)

check(
    "C13", "exploration",
    "Model-based testing of BinaryZlibFile/BinaryGzipFile: Hypothesis draws payloads (sizes at and around the 8192-byte block "
    "and its multiples, compressible and incompressible), stdlib-compressed at a drawn level, and operation lists over "
    "read/readinto/readline/tell/seek(3 whence modes, forwards/backwards/past the end); every return value and tell() is "
    "compared with an in-memory (data, pos) reference stream.  Writer cases: drawn chunkings and levels, output expanded by "
    "stdlib zlib/gzip and re-read through joblib.",
    "stdlib zlib/gzip are the reference; operation lists up to 30 ops; seeks to negative positions and read(None) are not "
    "generated; thread-safety of the file object is not exercised.",
    "Hypothesis model-based (stateful) operation sequences vs reference byte-stream model; differential vs stdlib codecs; plus an atheris (libFuzzer) coverage-guided campaign on the same oracle",
    "DESIGN.md section 4 C13",
)

check(
    "C14", "fault_enumeration",
    "For Hypothesis-generated joblib files (objects x all five compressors + raw x levels x protocols) every truncation "
    "length is enumerated when the file is <= 600 bytes, otherwise a boundary-biased set; plus suffix extensions (1 byte, "
    "random bytes, own magic, copy of itself, another valid file).  Each damaged file is loaded from memory and from a path "
    "under an alarm and an address-space cap: it must raise or return the original, never hang, never return something else.  "
    "The same damage is applied to Memory's output.pkl and the cached call must recompute the right value.",
    "Truncation is exhaustive only for files <= 600 bytes; 'hang' is decided by a 20 s alarm confirmed at 60 s, or by "
    "exhausting a 2 GiB address space on a tiny file; files are sampled, not enumerated.",
    "fault enumeration over truncation offsets/suffixes of Hypothesis-generated files; validity oracle (raises or deep-equal original) with watchdog",
    "DESIGN.md section 4 C14", engine="E4 values",
)

E1_NOTE = ("The harness owns the schedule only at boundaries user code may implement (backend API, input iterator, task "
           "bodies); windows inside joblib's own statement sequences are reached only by the uncontrolled real-backend runs (incl. a pre-emption stress variant: threading backend under a 1 us interpreter switch interval), i.e. probabilistically; "
           "n_jobs 2..6 and batch sizes <= 8 in the controlled engine; watchdogs (12 s, nothing pending for the driver) decide "
           "non-termination.")

check(
    "C01", "exploration",
    "Generated (configuration, task list, completion schedule) cases executed against Parallel through a controlled backend "
    "in which nothing completes until the driver says so: completion order, synchronous completions inside submit() and "
    "threads held at gates inside the iterator / submit / retrieve / batch-size hooks while other batches complete are all "
    "drawn and shrinkable.  Oracle: results equal the sequential loop in order, the tasks' execution log has every index "
    "exactly once, submitted batches concatenate to range(n).  Complemented by real-backend runs (sequential, threading, "
    "loky, multiprocessing).",
    E1_NOTE,
    "Hypothesis generated schedules on a harness-owned backend (schedule = generated data); reference-model oracle (sequential loop) + exactly-once execution log",
    "DESIGN.md sections 3 (E1) and 4 C01", engine="E1 sched",
)

check(
    "C04", "exploration",
    "Generated fail/succeed/fail histories of 2-4 calls on one Parallel object under the controlled backend: failing tasks, "
    "a failing input iterator, a never-completing batch with timeout, failures landing while other batches are in flight or "
    "pre-sliced, late completions of aborted batches delivered during the next call.  Oracle: the call raises an exception "
    "equal (type, args) to one actually raised, always returns control, and the next call returns exactly and submits only "
    "its own tasks.",
    E1_NOTE,
    "Hypothesis generated fault plans x schedules on a harness-owned backend; history invariant (exception identity, termination watchdog, clean reuse)",
    "DESIGN.md sections 3 (E1) and 4 C04", engine="E1 sched",
)

check(
    "C09", "exploration",
    "Controlled backend plus an instrumented input iterator (items handed out, thread currently inside, optional pause): "
    "generated configurations x input lengths up to 3x the bound x schedules with threads held inside the iterator / "
    "compute_batch_size / submit / retrieve hooks while other batches complete or fail, plus failures and closes.  Invariants "
    "over the event trace: exact lazy initial burst, pulled - done <= (P+2n)*b independent of N, batches in flight <= "
    "pre_dispatch, no re-entrant iteration, no pull after a registered failure / close.  eval_expr is compared with Python "
    "arithmetic on generated expressions.",
    E1_NOTE + "  The look-ahead bound is deliberately loose.",
    "Hypothesis generated schedules on a harness-owned backend and iterator; trace invariants; differential oracle for eval_expr",
    "DESIGN.md sections 3 (E1) and 4 C09", engine="E1 sched",
)

check(
    "C16", "exploration",
    "Controlled backend with return_as generator / generator_unordered: the drawn schedule interleaves batch completions "
    "with consumer actions (next, close, drop, overlapping call, exhaust) executed in the caller thread.  Promptness is decided "
    "by issuing next() when its result and all earlier ones are complete and requiring it to return before any further "
    "completion is issued; unordered delivery is compared with the completion order; abandonment must return, stop "
    "dispatching and leave the object reusable; overlapping calls must raise RuntimeError.",
    E1_NOTE,
    "Hypothesis generated histories (completions x consumer actions) on a harness-owned backend; model oracle for order/promptness/exactly-once",
    "DESIGN.md sections 3 (E1) and 4 C16", engine="E1 sched",
)

E6_NOTE = ("Functions are generated pure functions returning (name, canonical bound arguments); carriers: plain functions, async "
           "functions, bound methods and (values only) functools.partial objects; mmap_mode and custom store backends are not "
           "generated; histories are bounded (<= 25 steps, <= 2 functions); 'another process' is a fresh forked interpreter.")

check(
    "C02", "exploration",
    "Model-based histories against one cache directory: generated signatures (all kinds, exhaustive <=4-parameter set) x "
    "near-colliding argument values x drawn call spellings x ops (call, call_and_shelve().get(), the same call in another "
    "interpreter with a different PYTHONHASHSEED, clear, reduce_size).  Every function returns its own name and the canonical "
    "form of its bound non-ignored arguments, so a value served from any other entry is visibly wrong: oracle = equality with "
    "the plain function's value.",
    E6_NOTE,
    "Hypothesis model-based histories; differential oracle vs the undecorated (self-describing) function",
    "DESIGN.md sections 3 (E6) and 4 C02", engine="E6 memmachine",
)

check(
    "C06", "exploration",
    "Same generated histories as C02, judged against a reference model of the cache (set of present keys): a call the model "
    "holds must execute the body 0 times (the body logs its own executions, also in the second interpreter), "
    "check_call_in_cache must equal the model, and no spelling Signature.bind accepts may raise.  Entries leave the model only "
    "through the history's explicit clear / reduce_size steps.",
    E6_NOTE,
    "Hypothesis model-based histories vs reference model (present keys) with execution counter oracle",
    "DESIGN.md sections 3 (E6) and 4 C06", engine="E6 memmachine",
)

check(
    "C12", "exploration",
    "Generated histories of (define version k of a same-named function | call live version j | swap code object) over 1-3 "
    "fresh interpreter sessions sharing a cache directory, for module-level, nested, lambda, __main__ and file-less "
    "functions.  Version k returns (k, a): any value computed by other source code is visibly wrong.  A reference model of "
    "the stored version decides when unchanged code must be served from cache.",
    "Each definition is wrapped at definition time; concurrent live processes with different versions and IPython cell "
    "naming are not generated; <= 3 versions, <= 3 sessions, <= 10 steps per session.",
    "Hypothesis generated histories across fresh interpreters; self-identifying versions as oracle + reference model for cache retention",
    "DESIGN.md section 4 C12",
)

check(
    "C18", "exploration",
    "Generated stores (0-12 entries with drawn sizes and access times incl. ties, two cached functions) and limit "
    "combinations (None / 0 / exact fit / off-by-one / size strings / item counts / age limits between access-time slots); "
    "the harness takes its own inventory before and after reduce_size and checks the declarative specification: limits met, "
    "LRU order, minimality (tie-aware), survivors served from cache, evicted recomputed.  memstr_to_bytes is compared with an "
    "exact parse.",
    "No concurrent writer; age deadlines are kept >= 400 s from every access time; sizes are entry-directory file sizes.",
    "Hypothesis generated stores x limits; declarative specification (validity predicate) as oracle",
    "DESIGN.md section 4 C18",
)

check(
    "C17", "exploration",
    "Model-based histories of enter/exit (normal and exceptional)/construct/observe rules executed in three threads, contexts "
    "up to depth 4 setting arbitrary subsets of the eight settings incl. registered custom backends; reference model = "
    "per-thread stack of dicts with the precedence explicit > innermost context > outer > default; after every rule every "
    "thread's observation is compared with the model (restoration after exit, isolation between threads, precedence of each "
    "setting, sharedmem constraint, prefer as a hint only).",
    "Parallel objects are constructed but not called; LIFO exits; backend=None / n_jobs=None are not passed to contexts; the "
    "suite-pinned exception (context n_jobs dropped when a context-selected process backend is replaced for sharedmem) is part "
    "of the model.",
    "Hypothesis model-based (stateful) rule histories across threads vs stack-of-dicts reference model",
    "DESIGN.md section 4 C17",
)

check(
    "C20", "exploration",
    "Generated request histories (register / maybe_unlink / unregister, balanced and unbalanced, malformed lines, mistyped "
    "resources, clients leaving) from 1-3 clients against a REAL resource-tracker process (resource_tracker.main on a pipe), "
    "synchronised after every request through the FIFO pipe with a sentinel file; the set of existing files/folders is "
    "compared with a refcount model after every request and after the last client closed (tracker must exit and clean "
    "exactly what is still registered).",
    "Protocol level: a client is a copy of the pipe's write end, its death is the closing of that descriptor; messages are "
    "whole lines; the TemporaryResourcesManager layer above the protocol is exercised only indirectly (C19's Parallel runs).",
    "Hypothesis model-based request histories against a live tracker process vs refcount reference model (file-system observation)",
    "DESIGN.md section 4 C20",
)

check(
    "C10", "fault_enumeration",
    "Generated kill matrix on the real loky backend: victims x kill kind (SIGKILL/SIGTERM/SIGSEGV/abort/_exit(0)/_exit(1)) x "
    "life-cycle instant (argument unpickling, task start, mid-task, result pickling, result sending with a parent-side "
    "delayed kill, idle between calls, next call's start-up) over histories of 2-5 calls on one Parallel object with and "
    "without a with-block.  Each call runs under a repeating SIGALRM watchdog; oracle: termination error or exact results, "
    "never a hang, at most one failing call per fault, healthy distinct workers afterwards.  One root cause (worker killed "
    "while writing a large result) is a listed known finding and its class is excluded from the search.",
    "Kill instants inside loky's own queue locks are reached only probabilistically; 30 s decides a hang (normal < 1 s); "
    "POSIX only; histories are sampled, the (kind x instant) cells are all generated but not exhaustively crossed with victims.",
    "Hypothesis generated fault sequences (fault injection into live worker processes) with watchdog + result oracle",
    "DESIGN.md section 4 C10", engine="E2 real backends",
)

check(
    "C15", "exploration",
    "Three generated sub-domains: (a) n_jobs x CPU-affinity mask x LOKY_MAX_CPU_COUNT against an independent formula for "
    "cpu_count / effective_n_jobs of every backend; (b) real backends x n_jobs x task durations with start/end lines logged by "
    "the tasks (O_APPEND): simultaneously open intervals and distinct workers never exceed n_jobs, n_jobs=1 runs inline; (c) "
    "nested Parallel calls of depth 1-3 under loky/threading/multiprocessing: every nested task runs in its parent's process, "
    "deeper levels in their parent's thread.",
    "Worker replacement during a call is assumed not to happen in short runs; the cgroup quota is read by the harness itself; "
    "n_jobs up to 4 in the concurrency part.",
    "Hypothesis generated configurations; differential oracle (independent formula) + trace invariants over task-written logs",
    "DESIGN.md section 4 C15", engine="E2 real backends",
)

check(
    "C05", "fault_enumeration",
    "For Hypothesis-generated Memory workloads (cold/warm calls, source changes, callback-driven invalidation, shelving, "
    "reduce_size, clear; outputs spanning one or many write calls; compression on/off) an LD_PRELOAD interposer on libc's "
    "file-system calls first lists the N mutations a reference run issues under the cache directory; then EVERY mutation "
    "index is used as a crash point (SIGKILL before it) and every write is torn at enumerated lengths.  After each crash a "
    "fresh process checks that every visible output.pkl is complete, that plain / expires_after / shelved / hit-test calls "
    "return the live source version's value without raising, twice, and that reduce_size/clear still work.",
    "Process death, not power loss; crash points are exhaustive per workload (with enumerated torn-write lengths), workloads "
    "are sampled; runs whose mutation prefix diverges from the reference are discarded and counted; cache on the disk-backed "
    "file system.",
    "fault enumeration: exhaustive crash points (libc interposer, SIGKILL / torn writes) over Hypothesis-generated workloads; recovery oracle in a fresh process",
    "DESIGN.md sections 3 (E3) and 4 C05", engine="E3 fsgate",
)

check(
    "C19", "exploration",
    "With numpy from the offline wheelhouse (the baseline suite skips every numpy test): Hypothesis draws dtype x byte order "
    "x shape x memory layout (C/F/strided/negative/transposed/broadcast/memmap-backed views) x subclass x nesting and one of "
    "three configurations - dump/load under all compressors/protocols/targets, load with every mmap_mode, Parallel with "
    "loky/multiprocessing and max_nbytes thresholds around the array size.  Oracle: dtype/shape/order/element bytes identical "
    "(modulo the documented native-byte-order conversion), memmaps are aligned views whose file bytes are the array's bytes, "
    "workers see the same values.",
    "numpy 2.5 only; sizes up to ~64 Ki elements; subclasses and below-threshold arrays travel through numpy's own pickling "
    "(byte order then not judged); legacy multi-file format not generated; aliasing of one array referenced twice is recorded "
    "but not judged.",
    "Hypothesis generated arrays/configurations; round-trip and differential (parent vs worker, file bytes vs array bytes) oracles",
    "DESIGN.md section 4 C19", engine="E2 real backends",
)

check(
    "C11", "exploration",
    "2-4 processes (or threads of one process) run generated call / reduce_size / clear workloads on one cache directory under a turn-based scheduler: an "
    "LD_PRELOAD interposer makes every libc file-system call under the directory (reads and mutations) wait for a grant, so "
    "exactly one participant runs between two grants and the interleaving is the drawn schedule (run-to-completion plus up "
    "to 3/6 pre-emptions, CHESS style).  Oracle: every cached call returns its function's value and raises nothing; the files "
    "left behind are whole and hold values the workload computes.",
    "Bounded pre-emptions, sampled (not exhaustive) interleavings; participants are processes or threads of one process; "
    "a single libc call is atomic; NFS semantics not modelled; wrappers are created before the scheduled section.",
    "Hypothesis generated schedules (turn-based libc-call scheduler with bounded pre-emptions) over generated workloads; value/no-exception oracle",
    "DESIGN.md sections 3 (E3) and 4 C11", engine="E3 fsgate",
)

NOT_YET = "check not built yet in this session (work in progress; see DESIGN.md section 4 for the planned generator and oracle)"


def main():
    manifest = {
        "version": 1,
        "setup_cmd": "sh setup.sh all",
        "hooks": {
            "guard": "JOBLIB_VERIF",
            "enable": "none needed: no hooks were added to joblib; checks observe through public extension points "
                      "(custom backend, input iterator, task functions) and an LD_PRELOAD libc interposer; joblib is imported "
                      "from /repo's working tree via PYTHONPATH",
            "baseline_off_cmd": "cd /repo && /venv/bin/python -m pytest -ra -q -p no:cacheprovider --timeout=900 --continue-on-collection-errors",
            "source_commits": [],
            "add_only": True,
        },
        "engines": [
            {"name": "E3 fsgate", "path": "vf/engines/fsgate.c", "serves_properties": ["C05", "C11"],
             "kind_free_text": "LD_PRELOAD interposer on libc file-system calls: mutation log, crash-before-event-k / torn writes, turn-based scheduling"},
            {"name": "E2 real backends", "path": "vf/tasks.py", "serves_properties": ["C10", "C15", "C19"],
             "kind_free_text": "importable task/fault functions logging with O_APPEND; runs on sequential/threading/loky/multiprocessing"},
            {"name": "E6 memmachine", "path": "vf/engines/memmachine.py", "serves_properties": ["C02", "C06"],
             "kind_free_text": "reference-model machine for Memory: self-describing generated functions, call spellings, second interpreter"},
            {"name": "E1 sched", "path": "vf/engines/sched.py", "serves_properties": ["C01", "C04", "C09", "C16"],
             "kind_free_text": "controlled-schedule ParallelBackendBase subclass + driver: completion order, sync completions, gates, consumer actions are generated data"},
            {"name": "E4 values", "path": "vf/engines/values.py", "serves_properties": ["C08", "C03", "C14", "C02", "C06"],
             "kind_free_text": "typed value-spec universe, builders, canonical form, alias-aware deep equality, strategies"},
            {"name": "E5 sigs", "path": "vf/engines/sigs.py", "serves_properties": ["C07", "C02", "C06"],
             "kind_free_text": "signature / call-shape enumerator and Hypothesis strategies"},
        ],
        "checks": [CHECKS[p] for p in ALL if p in CHECKS],
        "not_applicable": [{"property_id": p, "reason": NOT_YET} for p in ALL if p not in CHECKS],
        "notes": "Property-based testing / fuzzing machinery; see DESIGN.md.  Every check: exit 0 held, exit 1 with "
                 "'VIOLATION property=<id> replay=<path>', exit 2 harness error.  VERIF_SEED selects the Hypothesis seed.",
    }
    with open(os.path.join(ROOT, "MANIFEST.json"), "w") as f:
        json.dump(manifest, f, indent=1)
        f.write("\n")
    try:
        import jsonschema
        jsonschema.validate(manifest, json.load(open("/root/.vp/MANIFEST.schema.json")))
        print("manifest valid;", len(manifest["checks"]), "checks")
    except ImportError:
        print("manifest written (jsonschema not available);", len(manifest["checks"]), "checks")


if __name__ == "__main__":
    main()
