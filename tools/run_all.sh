#!/bin/sh
# tools/run_all.sh [tier]: run every registered check once on the current tree, print exit code and time.
tier="${1:-quick}"
cd "$(dirname "$0")/.." || exit 2
for id in C01 C02 C03 C04 C05 C06 C07 C08 C09 C10 C11 C12 C13 C14 C15 C16 C17 C18 C19 C20; do
  s=$(date +%s)
  out=$(./check $id --tier $tier 2>&1); rc=$?
  echo "$id rc=$rc $(( $(date +%s) - s ))s $(echo "$out" | grep -a "tier=" | tail -1 | cut -c1-150)"
  [ $rc -ne 0 ] && echo "$out" | grep -a "VIOLATION\|HARNESS\|violation" | head -5 | cut -c1-400
done
