#!/bin/sh
# tools/seed_collect.sh <ID> <name>: verify the agent's demo both ways in its worktree and copy the deliverables to /verif/seeded/<name>/
id="$1"; name="$2"; w=/tmp/seed/$id
cd $w || exit 2
git diff -- joblib > /tmp/seed/$id.actual.diff
PYTHONPATH=$w timeout 180 /venv/bin/python _seeded/demo.py > /tmp/seed/$id.with.log 2>&1; rc_with=$?
git stash -q -- joblib
PYTHONPATH=$w timeout 180 /venv/bin/python _seeded/demo.py > /tmp/seed/$id.without.log 2>&1; rc_without=$?
git stash pop -q
echo "$id demo: with-change rc=$rc_with (want !=0), without rc=$rc_without (want 0)"
mkdir -p /verif/seeded/$name
cp /tmp/seed/$id.actual.diff /verif/seeded/$name/patch.diff
cp _seeded/demo.py /verif/seeded/$name/demo.py
cp _seeded/meta.json /verif/seeded/$name/meta.agent.json
echo "$rc_with $rc_without" > /verif/seeded/$name/demo_rc.txt
