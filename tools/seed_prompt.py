"""Print the prompt handed to an independent sub-agent that seeds a property-breaking change."""
import json, sys
pid = sys.argv[1]
for l in open('/verif/properties.jsonl'):
    p = json.loads(l)
    if p['id'] == pid:
        break
print(f"""You are working alone in a scratch git worktree of the Python library joblib at /tmp/seed/{pid} (a checkout of its HEAD). Interpreter: /venv/bin/python (pytest available). IMPORTANT RULES: work ONLY inside /tmp/seed/{pid}; do NOT read, list or use anything under /verif or /root/.vp; do NOT modify /repo. When you run Python, make sure joblib is imported from your worktree: run from inside the worktree with `cd /tmp/seed/{pid} && PYTHONPATH=/tmp/seed/{pid} /venv/bin/python ...` and check `joblib.__file__` once.

THE PROPERTY (a semantic property users of joblib rely on):
  Title: {p['title']}
  Statement: {p['statement']}
  It is meant to hold over: {p['quantifier']['text']}

YOUR TASK: make ONE small, realistic source change to joblib in that worktree (the kind of bug a plausible refactoring slip introduces: an off-by-one, a dropped lock or guard, a wrong condition, a swapped pair of fields, a stale cache, two cooperating sites that each look fine alone) that BREAKS the property above, while
  (a) the code still imports and runs;
  (b) the existing test suite still passes: run at least the test files related to the modules you touch and then the whole suite: `cd /tmp/seed/{pid} && /venv/bin/python -m pytest -q -p no:cacheprovider -x --timeout=900 joblib/test` (about 2-3 minutes; 1307 passed / 104 skipped / 3 xpassed is the reference result). If a test fails because of your change, choose a different change;
  (c) it is NOT exposed by ordinary simple use: it must need something specific to manifest - a particular interleaving or completion order, a fault at a particular point, a multi-step sequence of operations, an unusual input (a boundary size, an unusual signature or value type), or two cooperating code sites.
Read the relevant joblib source first to find a good spot. Prefer subtle over blatant.

DELIVERABLES, all inside /tmp/seed/{pid}/_seeded/ :
  - patch.diff : `git diff` of your change relative to HEAD (only joblib source files, not _seeded);
  - demo.py : a standalone script, run as `cd /tmp/seed/{pid} && PYTHONPATH=/tmp/seed/{pid} /venv/bin/python _seeded/demo.py`, that exits 0 on the UNMODIFIED code and exits non-zero (e.g. failing assertion) WITH your change, deterministically or nearly so, within 60 seconds. It must demonstrate a violation of the property as stated (not of some other behaviour);
  - meta.json : {{"property": "{pid}", "summary": "...what the change does...", "needs": "...what specific condition is needed for it to manifest...", "files": ["joblib/..."], "tests_run": "...command and result line..."}}.
Verify the demo in BOTH directions yourself (with the change, and with the change reverted via `git stash` / `git stash pop` or `git apply -R _seeded/patch.diff`). Leave the worktree with the change applied. In your final answer report: the summary, what it needs to manifest, the test-suite result line, and the demo results in both directions.""")
