#!/bin/sh
# tools/seed_eval_copy.sh <seed-dir> <check ids...>: like seed_eval.sh but on a scratch worktree (/tmp/mut) selected with VF_REPO,
# so /repo stays untouched (usable while background runs use /repo).
d="$1"; shift
[ -d /tmp/mut ] || git -C /repo worktree add -q --detach /tmp/mut HEAD
cd /tmp/mut && git reset -q --hard "$(git -C /repo rev-parse HEAD)" || exit 2
git apply "/verif/seeded/$d/patch.diff" || { echo "$d: patch does not apply to HEAD"; exit 2; }
cd /verif
for id in "$@"; do
  out=$(VF_REPO=/tmp/mut ./check "$id" 2>&1 | tail -40)
  if echo "$out" | grep -q "^VIOLATION"; then echo "$d: $id CAUGHT: $(echo "$out" | grep -m1 'violation signature' | cut -c1-200)";
  elif echo "$out" | grep -q "HARNESS-ERROR"; then echo "$d: $id HARNESS-ERROR: $(echo "$out" | grep -m1 HARNESS | cut -c1-300)";
  else echo "$d: $id missed: $(echo "$out" | tail -1 | cut -c1-160)"; fi
done
cd /tmp/mut && git checkout -q -- .
rm -f /verif/replays/*.json
