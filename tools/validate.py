"""Validate MANIFEST.json and evidence/*.json against the given schemas (run with python3-vt)."""
import json, glob, sys
import jsonschema
ok = True
m = json.load(open("MANIFEST.json"))
jsonschema.validate(m, json.load(open("/root/.vp/MANIFEST.schema.json")))
es = json.load(open("/root/.vp/EVIDENCE.schema.json"))
for c in m["checks"]:
    try:
        jsonschema.validate(json.load(open(c["evidence_file"])), es)
        print("ok", c["evidence_file"])
    except Exception as e:
        ok = False
        print("BAD", c["evidence_file"], str(e)[:300])
sys.exit(0 if ok else 1)
