#!/bin/sh
# tools/mutate.sh <file-in-repo> <python-regex-old> <new> -- <check args...>
# Applies a one-line textual mutation to /repo's working tree, runs ./check, reverts.
f="$1"; old="$2"; new="$3"; shift 3; [ "$1" = "--" ] && shift
cd /repo || exit 2
if [ -n "$(git status --porcelain -uno)" ]; then echo "repo dirty"; exit 2; fi
OLD="$old" NEW="$new" /venv/bin/python - "$f" <<'PY'
import os, sys
p = sys.argv[1]
s = open(p).read()
old, new = os.environ["OLD"], os.environ["NEW"]
if s.count(old) < 1:
    print("MUTATION PATTERN NOT FOUND"); sys.exit(3)
open(p, "w").write(s.replace(old, new, 1))
PY
rc=$?
if [ $rc -ne 0 ]; then git checkout -- .; exit 2; fi
cd /verif && ./check "$@" --no-known 2>&1 | tail -4
rc=$?
git -C /repo checkout -- .
exit $rc
