#!/bin/sh
# tools/seed_eval.sh <seed-dir> <check ids...>: apply seeded/<dir>/patch.diff to /repo, run the checks (quick), revert.
d="$1"; shift
cd /repo || exit 2
[ -n "$(git status --porcelain -uno)" ] && { echo "repo dirty"; exit 2; }
git apply "/verif/seeded/$d/patch.diff" || { echo "patch does not apply"; exit 2; }
cd /verif
for id in "$@"; do
  out=$(./check "$id" 2>&1 | tail -40)
  if echo "$out" | grep -q "^VIOLATION"; then echo "$d: $id CAUGHT: $(echo "$out" | grep -m1 'violation signature' | cut -c1-260)";
  elif echo "$out" | grep -q "HARNESS-ERROR"; then echo "$d: $id HARNESS-ERROR: $(echo "$out" | grep -m1 HARNESS | cut -c1-300)";
  else echo "$d: $id missed: $(echo "$out" | tail -1 | cut -c1-160)"; fi
done
git -C /repo checkout -- .
rm -f /verif/replays/*.json
